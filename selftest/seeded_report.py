#!/usr/bin/env python3
"""Run every stored seeded change (seeded/<id>/patch.diff) through the rules and (re)write seeded/<id>/meta.json:
which property it breaks, what it needs in order to manifest, what was run to confirm it, which rule keys report it and
under which properties.  Prints the table used in DESIGN.md.   usage: selftest/seeded_report.py [--write]"""
import sys, os, json, re, importlib.machinery, importlib.util

ROOT = os.path.dirname(os.path.dirname(os.path.abspath(__file__)))
sys.path.insert(0, ROOT)
loader = importlib.machinery.SourceFileLoader('bv', os.path.join(ROOT, 'bv'))
spec = importlib.util.spec_from_loader('bv', loader)
bv = importlib.util.module_from_spec(spec)
loader.exec_module(bv)

# what each change needs in order to manifest (from the demonstration that comes with it)
NEEDS = {
    'C01-1': 'a chunk whose brotli output is exactly as long as the chunk (boundary input); library writer',
    'C01-2': 'a schedule: the last tokio write of the temp file still in flight when it is reopened (large last chunk)',
    'C01-3': '--seed-output onto an existing regular file longer than the new source (two cooperating edits: truncate-on-open + no final resize)',
    'C02-1': 'a source with a duplicated block and a seed in which that block is followed by the block that belongs at the stale position',
    'C02-2': 'seeds that supply every chunk + an existing longer output with --force-create (early return skips flush/resize/verify)',
    'C02-3': 'an output write fault that hits only seed-chunk writes (RLIMIT_FSIZE); error of clone_from_readable is logged and dropped',
    'C03-1': 'a move cycle in which two other chunks land on the buffered chunk (uneven chunk sizes): second StoreInMem re-reads an overwritten place',
    'C03-2': 'any cyclic move dependency (swap / rotation) in the prior output; planner frees a source location too early',
    'C03-3': 'an archive with --hash-length < 64 and --seed-output with a reusable chunk that must move (scan keyed by full hash)',
    'C04-1': 'remote archive whose body ends exactly on a chunk boundary (or empty body); no --verify-output',
    'C04-2': 'a header corruption whose byte differences XOR to zero (1 in 256 random corruptions)',
    'C04-3': 'any fault while chunks are streamed (corrupt chunk, truncation) through the CLI: the error item ends the loop silently',
    'C05-1': 'the very last output write fails (ENOSPC injected at write W-1); sync_all parks the error',
    'C05-2': 'a re-run after a kill between the last data write and the resize, prior output longer than the source',
    'C05-3': 're-run plans that name the same stored chunk twice with a copy in between (after interruptions at writes 0-3)',
    'C06-1': 'prior output containing a swap (StoreInMem followed by a copy served from memory)',
    'C06-2': '--seed-output onto a longer prior output holding a reusable chunk beyond the new length',
    'C06-3': 'an archive built with --hash-length < 64, cloned with a seed',
    'C08-1': 'a mid-body cut after >= 1 received byte with retries left, followed by a gapped chunk no larger than the surplus',
    'C08-2': 'a read_at larger than 1 MiB that does not end at EOF',
    'C08-3': 'a fault that outlasts --http-retry-count while chunk data is fetched',
    'C11-1': 'two unique chunks finishing compression out of submission order (>= 2 buffers, uneven compression cost)',
    'C11-2': 'a history: an earlier compress to the same output died after chunking and left a longer temp file',
    'C11-3': 'a chunk whose compressed form is exactly as long as the chunk (CLI writer)',
    'C12-1': 'a schedule: the last block written to a tokio file output still in flight when create_archive returns',
    'C12-2': '>= 2 chunks in flight and a later one finishing compression first',
    'C12-3': 'a history: a failed earlier run left a longer temp file (same as C11-2, found independently)',
    'C13-1': 'a move cycle in the prior output (chunk written from memory stays in the clone index and is written again)',
    'C13-2': 'a chunk repeated in the prior output with >= 2 occurrences below an in-place occurrence',
    'C13-3': '--seed-output and --seed together with a seed chunk landing on a chunk that still has to be moved',
    'C14-1': 'a --verify-header value that is a strict prefix of the real checksum (or empty)',
    'C14-2': 'an interleaving: another process creates the output between the existence check and the late open',
    'C14-3': 'a crafted descriptor with small source_size and an archive_size that overflows the end offset',
    'C15-1': 'a local archive with valid magic truncated to 6..13 bytes',
    'C15-2': 'a server that answers the header requests and then 5xx to every chunk request',
    'C15-3': 'a checksum-valid header with >= 1 chunk and source_total_size mutated to 0',
    'C16-1': 'a fault exactly at the unlink of the temp file',
    'C16-2': 'an existing file at the output path and a clone that is refused / fails before the output is opened',
    'C16-3': '--seed-output and a reorder that parks more than 16 MiB in memory',
    'C17-1': 'a conforming archive with a chunk stored compressed and larger than its source size',
    'C17-2': 'HTTP transport and a descending / permuted chunk layout',
    'C17-3': 'a conforming zero-chunk archive (empty source)',
    # ---- second round (agents were given the first round's ideas as "already taken")
    'C01-4': 'a chunk larger than 2 MiB written to a real file: write_all replaced by write, count added to a total',
    'C01-5': '-i naming a FIFO / pipe / device: input limited to metadata().len() = 0',
    'C01-6': 'a repeated chunk followed later by a new one: dedup index taken from the order vector length',
    'C02-4': 'an archive with --hash-length < 64 and a seed: feed looks up with contains/offsets/remove that normalise keys differently',
    'C02-5': 'a last written chunk under 8 KiB: output wrapped in BufWriter, into_inner() drops the buffer',
    'C02-6': '--seed-output with a moved chunk larger than 2 MiB: read_exact replaced by read in a merged helper',
    'C03-4': 'a small reusable chunk landing deep inside the old place of a bigger chunk: overlap query gets a lower bound',
    'C03-5': 'a chunk over 1 MiB moving up by less than its size: copied in ascending 1 MiB pieces over itself',
    'C03-6': 'prior output longer than the source with a reusable chunk straddling the new end',
    'C04-4': 'a local archive and a --verify-header pin that does not match: check made conditional on remote archives',
    'C04-5': 'a local archive truncated exactly at a chunk boundary: zero-byte read at chunk start ends the stream',
    'C04-6': 'a persistently hash-mismatching chunk: re-fetch loop with an always-true guard swallows the last failure',
    'C05-4': 'a chunk larger than 2 MiB (same change as C01-4, written independently)',
    'C05-5': 'a crash during the very first write: non-empty output sharing no chunk is refused on every re-run',
    'C05-6': 'a reorder cycle between differently sized chunks: StoreInMem carries the size of the wrong chunk',
    'C06-4': 'a BuzHash archive with a seed: Buzhash arm returns Config::RollSum',
    'C06-5': 'a block device output with --seed-output: scan skipped when metadata().len() == 0',
    'C06-6': 'a source with the same chunk at non-adjacent positions: fetch list walks source_order, dedup only adjacent',
    'C08-4': 'a body fragment exactly as long as the awaited chunk while a prefix is buffered',
    'C08-5': 'a connection cut mid-body: is_transient() does not cover the decode error reqwest reports',
    'C08-6': 'a prior read through the same reader, then a range list starting at offset 0: seek skipped',
    'C09-1': 'BuzHash and a run of >= window equal bytes preceded by a different byte',
    'C09-2': 'min > window + 1 and a chunk candidate starting near the end of buffered data',
    'C09-3': 'RollSum with min_chunk_size <= window_size and a first boundary inside the first window',
    'C11-4': 'source piped through stdin with hash length != buffer count: swapped arguments at one call site',
    'C11-5': 'a stored chunk larger than 2 MiB in the library writer: write instead of write_all, offset advanced by the count',
    'C11-6': 'a non-UTF-8 metadata value printed through from_utf8_lossy',
    'C12-4': '>= 2 chunks in flight: source checksum digested inside the parallel hashing tasks',
    'C12-5': '>= 2 metadata entries: dictionary metadata becomes a HashMap',
    'C12-6': '--compression none, a repeated chunk, file vs pipe delivery: temp file preallocated to the input size',
    'C13-4': 'a prior output with a repeated chunk whose non-first occurrence is in place: scan index skips duplicates',
    'C13-5': 'a chunk larger than 2 MiB (same change as C01-4, written independently)',
    'C13-6': 'an in-place update that grows across the old end: off-by-one in a planner shortcut',
    'C14-4': 'a refusal (invalid archive / pin mismatch) with an output that does not exist yet: open moved before the checks',
    'C14-5': 'the existing output also named as --seed, no -f / --seed-output: seed_output derived from the seed list',
    'C14-6': 'a crafted archive with window 0 / max chunk size 0: validation split into clauses that lose the zero tests',
    'C15-4': 'a checksum-valid dictionary with a checksum longer than 64 bytes: HashSum length stored unclamped',
    'C15-5': 'a server announcing a huge Content-Length: allocation sized by the header',
    'C15-6': 'an archive declaring a max chunk size above 1 GiB: derived buffered(0) never polls',
    'C16-4': 'an empty input: temp file removal moved into a helper that is skipped for empty sources',
    'C16-5': '--force-create onto an output that cannot be opened for writing: removed and re-created',
    'C16-6': '-vv: the logger gets a second sink, a file in the working directory',
    'C17-4': 'a conforming archive with chunks stored in non-ascending order: read list sorted, descriptors not',
    'C17-5': 'a hash length below 64: verification digests with variable-length BLAKE2b',
    'C17-6': 'a local archive with padding / slack: refused because its size differs from header + chunk data',
    # ---- third round (agents were asked for changes that need something specific to manifest; earlier ideas listed as taken)
    'C01-7': 'a source with repeated chunks (CLI writer): the source digest is updated below an early return for duplicates',
    'C01-8': 'a rolling-hash archive with min chunk size == max chunk size: half-open range in the reader\'s validation',
    'C01-9': 'a transfer fault during a header / dictionary request with --http-retry-count > 0: .retry() lost in a new helper',
    'C02-7': 'an existing non-zero output re-used with -f and a source with an all-zero chunk: zero chunks skipped as "holes"',
    'C02-8': 'two concurrent clones into outputs that differ only in their extension: shared <stem>.part temp file',
    'C02-9': 'a release build and a swap in the prior output: the insert into the in-memory store sits inside debug_assert!',
    'C03-7': 'the output is a symlink to a longer regular file: resize guard computed with lstat on the path',
    'C03-8': 'a repeated chunk already in place at exactly the first k of its n > k offsets: zip() prefix shortcut in strip',
    'C03-9': 'a rotation of >= 3 chunks (two parked at once): in-memory store reduced to a single slot',
    'C04-7': 'a chunk payload replaced by an intact copy of another wanted chunk: mismatch error turned into "misplaced chunk"',
    'C04-8': 'a compressed payload that decodes to zero bytes (2 of the single-bit flips of a brotli chunk): verify skipped for empty data',
    'C04-9': 'a --verify-header value that does not parse (trailing comma): parse error becomes "no pin"',
    'C05-7': 'a first run that died before the output was created, re-run with --seed-output: match arm without create(true)',
    'C05-8': 'the final ftruncate fails (sealed memfd) on a longer prior output: resize error only logged',
    'C05-9': '--verify-output with a longer prior output: checksum taken before the resize',
    'C06-7': 'a block device output holding wanted chunks beyond the new image\'s length: scan limited with take(source size)',
    'C06-8': 'a body fragment of a multi-chunk response ending exactly on an inner chunk boundary: request dropped when the buffer drains',
    'C06-9': '-f together with --seed-output on an existing file: truncate(force_create) on open',
    'C08-7': 'a second mid-body cut of the same range request: per-response byte counter never reset',
    'C08-8': 'HTTP reader, final failure in the connect phase and a consumer that polls again: take_while re-polls a completed future',
    'C08-9': 'a retry budget of b >= 1 on header reads: off-by-one in a rewritten attempt counter',
    'C11-7': 'a non-default --hash-length (CLI writer): truncation applied to a copy used for logging only',
    'C11-8': 'a source where no chunk shrinks (or an empty one): recorded compression filtered by "any chunk compressed"',
    'C11-9': 'two or more --metadata-value / --metadata-file options: pairs zipped with the wrong stride',
    'C12-7': 'two create_archive calls with different brotli levels in one process: encoder parameters cached in a static OnceLock',
    'C12-8': 'a metadata key given twice and reads completing out of order: files read through FuturesUnordered',
    'C12-9': 'identical compressible chunks less than num_chunk_buffers apart and a particular interleaving: racy "who compresses" marker',
    'C13-7': 'a read error exactly at a StoreInMem of a swap: reorder read errors logged and skipped',
    'C13-8': 'an I/O error during the re-order phase: fallback rebuilds the clone index from the archive',
    'C13-9': 'a repeated chunk, a write error on a later offset and a caller that carries on: location put back into the index',
    'C14-7': 'a self-consistent header without the chunk_compression message: unwrap_or_default instead of invalid archive',
    'C14-8': 'the output is a symlink to a too small block device: block-device test done with lstat on the path',
    'C14-9': 'an existing output and --verify-output without -f: create / create_new derived from a condition that includes verify_output',
    'C15-7': 'a checksum-valid header with a rebuild index in [descriptors, entries): bound checked against the wrong count',
    'C15-8': 'a metadata key longer than 32 bytes with a multi-byte character across byte 32: key sliced at a byte index',
    'C15-9': 'a server whose chunk-data body does not end after the requested bytes: response drained before it is dropped',
    'C16-7': '--seed-output together with --seed FILE: one OpenOptions value shared and mutated by the output branch',
    'C16-8': 'a temp file left by a killed earlier compress, re-run with -f: free temp name chosen, old name removed',
    'C16-9': 'a fetched chunk that fails its hash check: rejected data written to <output stem>.rejected-chunk',
    'C17-7': 'a conforming archive with chunk data stored in descending / permuted order: overlap check walks dictionary order',
    'C17-8': 'a conforming archive stored in permuted order: reported archive size taken from the last descriptor',
    'C17-9': 'a source larger than 4 GiB: offset accumulator of a rewritten scan() inferred as u32',
    # ---- C07 (claimed in the third session; seeded afterwards)
    'C07-1': 'a schedule: a body fragment ending exactly on a chunk boundary inside a run - request dropped when the buffer runs dry',
    'C07-2': 'more than 4096 back-to-back chunks all missing: take(MAX - 1) in front of the adjacency take_while',
    'C07-3': 'an archive of another writer with a chunk stored larger than its source size: fetch size clamped to the source size',
    # ---- fourth round (all 132 earlier ideas listed as taken; agents pointed at shared state, API contracts, option combinations,
    #      partial failure, compatibility paths, sibling drift, logging side effects, conditions evaluated at the wrong time)
    'C01-10': 'debug logging on (-v) and nothing left to fetch: a debug! argument indexes the empty fetch list',
    'C01-11': '--http-timeout together with --http-header against a server that wants the header: request rebuilt without headers',
    'C01-12': 'a stored chunk of >= 2 MiB after smaller ones (CLI writer): big chunks bypass a pending write batch',
    'C02-10': 'equal-sized chunks of different content, one of them repeated and placed early (a seed changes the order): per-size counter with inconsistent units turns chunks down',
    'C02-11': 'an existing output with mode 6xxx longer than the new source: block-device mask one octal digit short (set-uid + set-gid bits)',
    'C02-12': 'an archive with stored checksums longer than its hash length and seeds supplying more than three quarters of the chunks: fetch list looked up by truncated keys',
    'C03-10': '--seed-output where no chunk is moved and the chunk at offset 0 must be fetched: CloneOutput skips "redundant" seeks assuming position 0',
    'C03-11': 'a prior output longer than the source: final resize only ever grows the file',
    'C03-12': 'a chunk occurring more than 4096 times over non-zero prior content: add_chunk keeps at most 4096 offsets',
    'C04-10': '--verify-header with a matching pin and a header corruption outside the stored checksum: pinned constructor skips the header hash',
    'C04-11': 'a server that goes silent mid-transfer with --http-timeout: elapsed timeout turned into end of stream',
    'C04-12': 'a corrupted payload of a chunk stored raw: shortcut builds the VerifiedChunk with the hashing-only constructor',
    'C05-10': 'an I/O fault on the output synthesised by tokio (no OS error number): exit status taken from raw_os_error()',
    'C05-11': 'a single feed pending for more than 2 s (slow medium): feed raced against a timer with select!, the loser is dropped half way',
    'C05-12': 'a server sending a byte too many and a fetch list with a gap (interrupted in-place update): receive buffer no longer cleared',
    'C06-10': 'two or more --seed files with a wanted chunk at the join: seeds chained into one chunker pass',
    'C06-11': 'a block device output with --seed-output: file size probed on a try_clone() of the handle (shared offset)',
    'C06-12': 'a run of more than 256 adjacent missing chunks: chunk count capped, request size not',
    'C07-4': 'two read_chunks calls on one reader, the first stream dropped mid-run: receive buffer moved into the reader',
    'C07-5': 'an archive of a writer that does not de-duplicate (repeated checksums): take(chunks.len()) after the descriptor filter',
    'C07-6': 'a zero-sized stored chunk whose predecessor is not missing: buffer test gains request.is_some(), an invalid range is requested',
    'C08-10': 'a gapped range list, a resumed fault in an earlier run and a fault in a later one: request re-used via restart(), retry budget not restored',
    'C08-11': 'a mid-body cut with retries left: Range header set once in new() and appended again on resume',
    'C08-12': '--http-retry-count without --http-timeout and a transfer fault: shared reader helper returns early before the retry wiring',
    'C11-10': 'BuzHash with an explicit --rolling-window-size 64B: default detected by comparing with the generic default',
    'C11-11': 'two or more --metadata-file options: read_to_end into a buffer that is never cleared',
    'C11-12': 'a chunk occurring three or more times (library writer): HashMap::insert used as get-or-insert',
    'C12-10': 'a pipe whose first write is 1 to 5 bytes: sniffed head put back as a full 6-byte array',
    'C12-11': 'a run longer than 1 s and a tick landing during a temp-file write: chunk storing raced against a progress interval with select!',
    'C12-12': 'more than 131072 distinct chunks and repeats afterwards: de-duplication table thinned with retain in HashMap order',
    'C13-10': 'a smaller chunk moved after a bigger one by reading it back: bounce buffer only ever grows',
    'C13-11': '--seed-output on an output ending like the source with a last chunk below the minimum size: left-over chunks filtered out of the scans',
    'C13-12': 'a block device output with --seed-output: file_size() no longer rewinds',
    'C14-10': 'a header with an enum value outside the known set (newer writer): prost getters default instead of try_from',
    'C14-11': 'a block device less than one sector short of a source that is not a multiple of 512: size check in sectors, image side rounded down',
    'C14-12': 'a remote archive, --http-retry-count >= 1 and an existing output without -f: failed attempt retried with seed_output = true',
    'C15-10': 'a server that keeps redirecting within its origin: custom redirect policy without a hop limit',
    'C15-11': 'a response whose Content-Range does not describe its body: leading surplus computed by subtraction, body split at it',
    'C15-12': 'a descriptor whose source_size exceeds what its brotli data expands to: read loop ignores Ok(0)',
    'C16-10': 'a panic (stdout closed): panic hook writes a crash report into $TMPDIR',
    'C16-11': 'OUTPUT naming a directory that holds an extension-less archive, with -f: derived output path is the archive itself',
    'C16-12': 'a server that ignores Range: whole archive downloaded into <output>.cba.download, left behind when the clone fails',
    'C17-10': 'an archive with padding between chunks over HTTP and a body frame ending inside the padding: nearby runs merged, part of the gap lost',
    'C17-11': 'an archive with a hash length below 64: HashSum == compares whole backing arrays when the lengths match',
    'C17-12': 'an application_version that is not x.y.z (another writer, pre-release): version parsed with ? in a "newer version" notice',
}
WHY_MISSED = {
    'C03-2': 'not decided by design: correctness of the DFS reorder planner (graph algorithm over runtime data)',
    'C13-2': 'not decided by design: the arithmetic of strip_chunks_already_in_place (a merge over runtime offset lists)',
    'C03-4': 'not decided by design: the overlap query of the reorder planner (arithmetic over runtime layouts)',
    'C03-6': 'not decided by design: the reorder planner',
    'C05-6': 'not decided by design: the reorder planner (which size a StoreInMem carries)',
    'C13-6': 'not decided by design: the reorder planner',
    'C09-1': 'not decided by design: rolling hash arithmetic (only the tiling clause of C09 is claimed)',
    'C09-2': 'not decided by design: where boundaries fall / read independence (only the tiling clause of C09 is claimed)',
    'C09-3': 'not decided by design: where boundaries fall (only the tiling clause of C09 is claimed)',
    'C01-5': 'no rule: a new limit on the compress input derived from file metadata',
    'C01-6': 'no rule yet: the index recorded for a new unique chunk must count unique chunks',
    'C03-5': 'no rule: an executor that copies a chunk piecewise over itself (needs the overlap semantics of the plan)',
    'C04-6': 'no rule: a new retry feature whose guard is always true (the error is examined by a predicate, then only logged)',
    'C05-5': 'no rule: a new refusal that makes re-runs fail (behavioural)',
    'C08-4': 'no rule: a fast path missing a precondition on buffered bytes (value reasoning)',
    'C08-5': 'no rule: which error kinds count as transient (semantics of a dependency)',
    'C08-6': 'no rule: seek skipped on a tracked position with a wrong initial value (value reasoning)',
    'C11-6': 'no rule: lossy text conversion of a reported value',
    'C12-6': 'reported under C16 only (set_len on the temp file is a new file-system effect); no determinism rule sees it',
    'C13-4': 'no rule: the scan index must record every occurrence',
    'C15-6': 'no rule: a validated (non-zero) but huge value makes a derived concurrency zero (range reasoning beyond A4)',
    'C17-6': 'no rule: a new refusal based on the file size (behavioural)',
    'C02-8': 'reported under C14 / C16 (a second path opened for writing, a rename) - the structural fact; that two concurrent clones then share the side file is an interleaving of two processes, which no rule sees',
    'C11-9': 'no rule: iterator arithmetic (stride of a zip) in a new argument-pairing helper - value reasoning over positions in a list',
    'C15-9': 'reported under C06 / C07 / C08 (the request is no longer dropped behind the run counter); that the drain loop is bounded only by what the server sends is a liveness fact about a peer, no rule',
    'C01-12': 'no rule: a new write-batching feature in the CLI writer whose bypass reorders the chunk data (two write sites for the temp file; value reasoning over batch state)',
    'C07-6': 'no rule: an added guard that changes what happens for a zero-sized chunk with no request in flight (value reasoning; the structural rules see the same request construction)',
    'C11-10': 'no rule: a default decided by comparing an option value with the generic default (value reasoning over command line defaults)',
    'C16-11': 'no rule: the output path is derived from the archive name when OUTPUT is a directory - the open flags and the set of opened paths are unchanged, which file the path names is a runtime fact',
    'C17-12': 'no rule: a new refusal based on the form of the version string (behavioural; the reader wiring rules only see that application_version is reported unaltered)',
    'C17-8': 'no rule: a reported figure (archive size in `bita info`) derived from the last descriptor; the clone itself stays exact',
}


def main():
    write = '--write' in sys.argv
    base = set(bv.keys_of_facts(bv.facts_dir()))
    sdir = os.path.join(ROOT, 'seeded')
    rows = []
    for d in sorted(os.listdir(sdir)):
        pp = os.path.join(sdir, d, 'patch.diff')
        if not os.path.exists(pp) or d not in NEEDS:
            continue
        prop = d.split('-')[0]
        fd = bv.prepare_patch_variant(pp)
        if fd in (None, 'n/a'):
            print(d, 'PATCH PROBLEM', fd)
            continue
        ks = [k for k in bv.keys_of_facts(fd) if k not in base]
        own = [k for k in ks if prop in bv.PROPS and any(re.search(rx, k) for rx in bv.PROPS[prop]['find'])]
        others = sorted({p for p, P in bv.PROPS.items() for k in ks if any(re.search(rx, k) for rx in P['find'])})
        demo = sorted(f for f in os.listdir(os.path.join(sdir, d)) if f not in ('patch.diff', 'notes.md', 'meta.json'))
        meta = {
            'id': d, 'property': prop,
            'breaks': open(os.path.join(sdir, d, 'notes.md')).read().splitlines()[0].lstrip('# ').strip(),
            'needs_to_manifest': NEEDS[d],
            'demonstration': demo,
            'confirmed': 'selftest/confirm_seed.sh in a scratch worktree of /repo (removed afterwards): patch applies; unedited suite '
                         '`cargo test --workspace --no-fail-fast --offline` = 92 passed / 0 failed with the patch; demonstration fails with '
                         'the patch and passes without it',
            'origin': 'written by a sub-agent that was given only the property text and a scratch worktree (nothing from /verif)',
            'detected': bool(own),
            'reported_by': own[:6],
            'also_reported_under': [p for p in others if p != prop],
            'all_new_keys': ks[:10],
        }
        if not own:
            meta['why_not_detected'] = WHY_MISSED.get(d, 'no rule covers it yet')
        if write:
            json.dump(meta, open(os.path.join(sdir, d, 'meta.json'), 'w'), indent=1)
        rows.append(meta)
    det = sum(1 for m in rows if m['detected'])
    print('| id | breaks | needs | reported by (under its own property) |')
    print('|---|---|---|---|')
    for m in rows:
        rb = '; '.join(sorted({k.split('|')[0] + ' ' + k.split('|')[2] if len(k.split('|')) > 2 else k for k in m['reported_by']})) or '**missed**: ' + m['why_not_detected']
        print('| %s | %s | %s | %s |' % (m['id'], m['breaks'][:90], m['needs_to_manifest'][:110], rb[:160]))
    print('\n%d of %d seeded changes reported under the property they were written against' % (det, len(rows)))


main()
