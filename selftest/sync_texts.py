#!/usr/bin/env python3
"""Regenerate, from the table TEXT in `bv`: the level texts of MANIFEST.json and the "Decided clauses as of the last build session"
paragraphs of DESIGN.md section 4 (one source for the three places, so they cannot drift)."""
import os, re, json, importlib.machinery, importlib.util
ROOT = os.path.dirname(os.path.dirname(os.path.abspath(__file__)))
loader = importlib.machinery.SourceFileLoader('bv', os.path.join(ROOT, 'bv'))
spec = importlib.util.spec_from_loader('bv', loader)
bv = importlib.util.module_from_spec(spec)
loader.exec_module(bv)
m = json.load(open(os.path.join(ROOT, 'MANIFEST.json')))
for c in m['checks']:
    p = c['property_id']
    dec, und = bv.TEXT[p]
    c['level_claimed']['text'] = ('Static analysis of the type-checked MIR of the current /repo tree (nothing of bita is executed): structural obligations that are '
                                  'necessary conditions of the property are enumerated completely and decided: %s. The behavioural remainder is NOT decided by this check: %s.' % (dec, und))
json.dump(m, open(os.path.join(ROOT, 'MANIFEST.json'), 'w'), indent=1)
d = open(os.path.join(ROOT, 'DESIGN.md')).read()
for p, (dec, und) in bv.TEXT.items():
    pat = re.compile(r'(### %s [^\n]*\n(?:.*\n)*?)\*Decided clauses as of the last build session[^\n]*\n' % p)
    mm = pat.search(d)
    if not mm:
        print('no paragraph for', p)
        continue
    new = '*Decided clauses as of the last build session (generated from the table `TEXT` in `bv`, which also feeds MANIFEST.json):* %s. *Not decided:* %s.\n' % (dec, und)
    d = d[:mm.end(1)] + new + d[mm.end():]
open(os.path.join(ROOT, 'DESIGN.md'), 'w').write(d)
print('synced', len(m['checks']), 'checks')
