use bitar::archive_reader::{ArchiveReader, IoReader};
use bitar::ChunkOffset;
use futures_util::StreamExt;
use std::io::Cursor;

#[tokio::test]
async fn zero_sized_range_after_a_non_empty_one() {
    let data: Vec<u8> = (0u8..32).collect();
    let mut reader = IoReader::new(Cursor::new(data.clone()));
    let ranges = vec![
        ChunkOffset::new(0, 4),
        ChunkOffset::new(4, 0),
        ChunkOffset::new(4, 4),
    ];
    let got: Vec<Vec<u8>> = reader
        .read_chunks(ranges)
        .map(|r| r.unwrap().to_vec())
        .collect()
        .await;
    assert_eq!(got, vec![data[0..4].to_vec(), vec![], data[4..8].to_vec()]);
}
