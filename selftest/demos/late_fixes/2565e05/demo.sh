#!/bin/bash
# 2565e05: --buffered-chunks 0 must be refused; with it compress and clone waited forever.
# Usage: ROOT=<worktree> bash demo.sh      exit 0 = defect absent, non-zero = defect present
set -u
export RUST_BACKTRACE=0 RUST_LIB_BACKTRACE=0
: "${ROOT:?set ROOT to the bita worktree}"
(cd "$ROOT" && cargo build --offline >/dev/null 2>&1) || { echo "build failed"; exit 99; }
BITA="$ROOT/target/debug/bita"
W=$(mktemp -d "${TMPDIR:-/tmp}/2565e05.XXXXXX")
trap 'rm -rf "$W"' EXIT
cd "$W"
T=${HANG_TIMEOUT:-20}

python3 - <<'EOF'
import random
random.seed(4)
open("input.bin", "wb").write(random.randbytes(300000))
EOF

# A good archive to clone from (the default number of buffered chunks, finishes in well under a second).
timeout 60 "$BITA" compress -i input.bin good.cba > /dev/null 2>&1 || { echo "could not build the reference archive"; exit 98; }

fail=0
check() {
    what=$1; shift
    start=$(date +%s)
    timeout -k 5 "$T" "$BITA" "$@" > run.log 2>&1
    rc=$?
    echo "bita $* -> exit $rc after $(( $(date +%s) - start )) s"
    sed -n '1,4s/^/    /p' run.log
    if [ $rc -eq 137 ] || [ $rc -eq 124 ]; then
        echo "DEFECT: $what hangs (killed after $T s; the same command with --buffered-chunks 1 takes < 1 s)"; fail=1
    elif [ $rc -eq 0 ]; then
        echo "unexpected: $what ran to the end"; fail=1
    elif ! grep -q 'buffered-chunks' run.log; then
        echo "unexpected: $what failed for another reason"; fail=1
    else
        echo "ok: $what refuses the value"
    fi
}
check compress compress --buffered-chunks 0 -i input.bin out.cba
check clone clone --buffered-chunks 0 good.cba output.bin

# Sanity: 1 is the smallest value which works.
timeout 60 "$BITA" clone --buffered-chunks 1 --verify-output good.cba one.bin > one.log 2>&1 && cmp -s one.bin input.bin \
    || { echo "sanity: --buffered-chunks 1 failed"; sed -n '1,4s/^/    /p' one.log; fail=1; }
exit $fail
