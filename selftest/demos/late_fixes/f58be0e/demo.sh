#!/bin/bash
# Reproduction for f58be0e: http chunk reader keeps the surplus of a run in its
# buffer and hands it out as the first chunk of the next run.
#
# usage: ROOT=<worktree> bash demo.sh      exit 0 = defect absent, 1 = defect present
set -u
export RUST_BACKTRACE=0
ROOT=${ROOT:?set ROOT to the bita worktree}
W=$(mktemp -d)
(cd "$ROOT" && cargo build --offline) >"$W/build.log" 2>&1 || { cat "$W/build.log"; echo "build failed"; exit 2; }
BITA=$ROOT/target/debug/bita
SRV=
cleanup() { [ -n "$SRV" ] && kill "$SRV" 2>/dev/null; rm -rf "$W"; }
trap cleanup EXIT
cd "$W" || exit 2

# Source: 8 different chunks of 64 bytes, archived uncompressed with fixed size chunking.
python3 - <<'EOF'
import hashlib
chunks = [hashlib.blake2b(bytes([i]), digest_size=64).digest() for i in range(8)]
open('src', 'wb').write(b''.join(chunks))
# The seed holds chunk 1 only: chunk 0 and chunks 2..7 are left to fetch from the
# archive, which are two runs (two range requests) since they are not adjacent.
open('seed', 'wb').write(chunks[1])
EOF
"$BITA" compress --fixed-size 64 --compression none -i src archive.cba >/dev/null || exit 2

# A server which honours the start of the requested range but not its end: it
# always sends everything from the first byte asked for up to the end of the file.
cat > server.py <<'EOF'
import http.server, re, sys
data = open('archive.cba', 'rb').read()
class H(http.server.BaseHTTPRequestHandler):
    protocol_version = 'HTTP/1.0'
    def do_GET(self):
        m = re.match(r'bytes=(\d+)-(\d*)', self.headers.get('Range', 'bytes=0-'))
        start = int(m.group(1))
        body = data[start:]
        sys.stderr.write('request %s -> sending %d bytes from offset %d\n'
                         % (self.headers.get('Range'), len(body), start))
        head = ('HTTP/1.0 206 Partial Content\r\nContent-Length: %d\r\n'
                'Content-Range: bytes %d-%d/%d\r\n\r\n'
                % (len(body), start, len(data) - 1, len(data))).encode()
        self.wfile.write(head + body)   # a single write, a single segment
    def log_message(self, *a): pass
s = http.server.ThreadingHTTPServer(('127.0.0.1', 0), H)
open('port', 'w').write(str(s.server_address[1]))
s.serve_forever()
EOF
python3 server.py 2>server.log &
SRV=$!
for i in $(seq 100); do [ -s port ] && break; sleep 0.1; done
PORT=$(cat port)

timeout 60 "$BITA" clone --seed seed "http://127.0.0.1:$PORT/archive.cba" out >clone.out 2>clone.err
RC=$?
echo "--- server log"; cat server.log
echo "--- bita clone exit status $RC"; cat clone.err
if [ $RC -eq 0 ] && cmp -s src out; then
    echo "PASS: clone succeeded and the output equals the source"
    exit 0
fi
echo "FAIL: clone of a valid archive from a server sending more than asked for failed (rc=$RC)"
exit 1
