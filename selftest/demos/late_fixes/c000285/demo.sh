#!/bin/bash
# Reproduction for c000285: a --verify-header value of more than 64 bytes is cut to
# 64 bytes when parsed and does then match a header checksum it is not equal to.
#
# usage: ROOT=<worktree> bash demo.sh      exit 0 = defect absent, 1 = defect present
set -u
export RUST_BACKTRACE=0
ROOT=${ROOT:?set ROOT to the bita worktree}
W=$(mktemp -d)
(cd "$ROOT" && cargo build --offline) >"$W/build.log" 2>&1 || { cat "$W/build.log"; echo "build failed"; exit 2; }
BITA=$ROOT/target/debug/bita
trap 'rm -rf "$W"' EXIT
cd "$W" || exit 2

python3 -c "open('src','wb').write(bytes(range(256)) * 64)"
"$BITA" compress -i src archive.cba >/dev/null || exit 2
# The header checksum is the last 64 bytes of the header: magic(6) size(8) dictionary(size) offset(8) checksum(64)
SUM=$(python3 - <<'EOF'
import struct
d = open('archive.cba', 'rb').read()
n = struct.unpack('<Q', d[6:14])[0]
print(d[14 + n + 8:14 + n + 8 + 64].hex())
EOF
)
echo "header checksum: $SUM"

FAIL=0
echo "=== sanity 1: the right checksum (64 bytes) is accepted"
"$BITA" clone --verify-header "$SUM" archive.cba out1 >s1.out 2>s1.err; RC=$?
echo "exit status $RC"; cat s1.err
[ $RC -eq 0 ] || { echo "FAIL: right checksum refused"; FAIL=1; }
echo "=== sanity 2: a wrong checksum (last byte changed) is refused"
WRONG=${SUM%??}$(printf '%02x' $(( (0x${SUM: -2} + 1) % 256 )))
"$BITA" clone --verify-header "$WRONG" archive.cba out2 >s2.out 2>s2.err; RC=$?
echo "exit status $RC"; cat s2.err
{ [ $RC -ne 0 ] && grep -q "Header checksum mismatch" s2.err; } || { echo "FAIL: wrong checksum not refused"; FAIL=1; }

echo "=== the case: the right checksum followed by 4 more bytes (68 bytes), not a checksum this header can have"
"$BITA" clone --verify-header "${SUM}deadbeef" archive.cba out3 >c.out 2>c.err; RC=$?
echo "exit status $RC"; cat c.err
if [ $RC -eq 0 ]; then
    echo "FAIL: a 68 byte value was accepted as the checksum of the header and the archive cloned (out3: $(stat -c %s out3) bytes)"
    FAIL=1
elif grep -q "checksum is longer than 64 bytes" c.err && [ ! -e out3 ]; then
    echo "PASS: value refused, nothing cloned"
else
    echo "FAIL: unexpected error"; FAIL=1
fi
exit $FAIL
