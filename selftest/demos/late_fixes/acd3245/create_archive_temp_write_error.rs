#![cfg(feature = "compress")]
//! Reproduction for acd3245: `bitar::api::compress::create_archive` does not report
//! a failed last write to its temporary file.
//!
//! Copy to bitar/tests/ and run in bitar/ with
//!   cargo test --offline --features compress --test create_archive_temp_write_error
//! (`create_archive` only exists with the `compress` feature, which the `bita` binary
//! enables but which is not a default feature of the library.)
//!
//! The write fault is a file size limit (RLIMIT_FSIZE) of 8 KiB with SIGXFSZ ignored,
//! a write beyond it fails with EFBIG. The test has no way to set the limit itself
//! with the dev-dependencies of bitar, so it runs itself once more through
//! `sh -c 'trap "" XFSZ; ulimit -f 16; exec ...'` and does the work in that child.
//! The output of create_archive is a Vec, only the temporary file is hit by the limit.
use std::io::Write;
use std::process::Command;

use bitar::api::compress::{create_archive, CreateArchiveError, CreateArchiveOptions};
use bitar::chunker;

const CHILD_ENV: &str = "BITAR_REPRO_FSIZE_CHILD";
const LIMIT: usize = 8192;
const CHUNK_SIZE: usize = 6144;

#[tokio::test]
async fn temp_write_error_is_reported() {
    if std::env::var_os(CHILD_ENV).is_none() {
        // Parent: run this very test again with the file size limit in place.
        let exe = std::env::current_exe().unwrap();
        let status = Command::new("sh")
            .arg("-c")
            // POSIX: ulimit -f counts in blocks of 512 bytes, 16 blocks = 8 KiB.
            .arg("trap '' XFSZ; ulimit -f 16 || exit 97; exec \"$0\" \"$@\"")
            .arg(exe)
            .args(["--exact", "temp_write_error_is_reported", "--nocapture"])
            .env(CHILD_ENV, "1")
            .status()
            .expect("run sh");
        assert_ne!(status.code(), Some(97), "could not set the file size limit");
        assert!(
            status.success(),
            "defect present (or fault injection broken), see the output of the child above: {status}"
        );
        return;
    }

    // Child. First make sure that the fault is there and is what is expected:
    // a file takes 8192 bytes, the write after them fails with EFBIG (27).
    {
        let mut probe = tempfile::tempfile().unwrap();
        let mut written = 0;
        let err = loop {
            match probe.write(&[0u8; 512]) {
                Ok(n) => written += n,
                Err(err) => break err,
            }
            assert!(written <= 4 * LIMIT, "fault injection not active");
        };
        assert_eq!(written, LIMIT, "file size limit is not what was asked for");
        assert_eq!(err.raw_os_error(), Some(27), "expected EFBIG: {err}");
        println!("child: files take {written} bytes, then: {err}");
    }

    // Two chunks of 6 KiB, stored uncompressed: the first fits into the temporary
    // file, the second and last one does not (2 KiB of it do).
    let source: Vec<u8> = (0..2 * CHUNK_SIZE).map(|i| (i % 251) as u8).collect();
    let options = CreateArchiveOptions {
        chunker_config: chunker::Config::FixedSize(CHUNK_SIZE),
        compression: None,
        num_chunk_buffers: 1,
        ..Default::default()
    };
    let mut archive: Vec<u8> = Vec::new();
    match create_archive(&source[..], &mut archive, &options).await {
        Err(CreateArchiveError::TempFileError(err)) => {
            println!("child: create_archive reported the failed write to the temp file: {err}");
            assert_eq!(err.raw_os_error(), Some(27));
        }
        Err(err) => panic!("unexpected error: {err:?}"),
        Ok(result) => {
            // No error: then the archive must hold all the chunk data its dictionary describes.
            let dictionary_size = u64::from_le_bytes(archive[6..14].try_into().unwrap()) as usize;
            let header_size = 14 + dictionary_size + 8 + 64;
            let described: usize = result
                .header
                .chunk_descriptors
                .iter()
                .map(|cd| cd.archive_size as usize)
                .sum();
            let present = archive.len() - header_size;
            println!(
                "child: create_archive returned Ok, dictionary describes {described} bytes of chunk data, archive holds {present}"
            );
            assert_eq!(
                present, described,
                "create_archive returned Ok but {} bytes of the last chunk are missing from the archive",
                described - present
            );
        }
    }
}
