#!/bin/bash
# Reproduction for acd3245: bitar::api::compress::create_archive does not report a
# failed last write to its temporary file, the chunk is silently missing from the archive.
#
# create_archive is library API which the bita binary does not use (compress_cmd.rs
# has its own copy of the loop), so this is the integration test next to this script,
# run the way it has to be run: in bitar/, with the `compress` feature.
# The test puts itself under `ulimit -f` (RLIMIT_FSIZE 8 KiB, SIGXFSZ ignored).
#
# usage: ROOT=<worktree> bash demo.sh      exit 0 = defect absent, non-zero = defect present
set -u
export RUST_BACKTRACE=0
ROOT=${ROOT:?set ROOT to the bita worktree}
HERE=$(cd "$(dirname "$0")" && pwd)
NAME=create_archive_temp_write_error
[ -e "$ROOT/bitar/tests/$NAME.rs" ] && { echo "$ROOT/bitar/tests/$NAME.rs is in the way"; exit 2; }
trap 'rm -f "$ROOT/bitar/tests/$NAME.rs"' EXIT
cp "$HERE/$NAME.rs" "$ROOT/bitar/tests/" || exit 2
cd "$ROOT/bitar" || exit 2
cargo test --offline --features compress --test $NAME --no-run >/dev/null 2>&1 || {
    cargo test --offline --features compress --test $NAME --no-run; echo "build failed"; exit 2; }
# stderr of cargo: drop the replayed compiler warnings, keep what the test run prints
cargo test --offline --features compress --test $NAME 2> >(sed -n '/^ *Running /,$p')
RC=$?
sleep 0.2
if [ $RC -eq 0 ]; then echo "PASS: the failed write is reported"; else echo "FAIL: see above"; fi
exit $RC
