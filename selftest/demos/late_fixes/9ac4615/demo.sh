#!/bin/bash
# Reproduction for 9ac4615: a chunk whose hash matches but whose size is not the
# size recorded for its place in the output is written as is, over its neighbour
# (and, on a block device, beyond the end of the source).
#
# usage: ROOT=<worktree> bash demo.sh      exit 0 = defect absent, 1 = defect present
set -u
export RUST_BACKTRACE=0
ROOT=${ROOT:?set ROOT to the bita worktree}
W=$(mktemp -d)
(cd "$ROOT" && cargo build --offline) >"$W/build.log" 2>&1 || { cat "$W/build.log"; echo "build failed"; exit 2; }
BITA=$ROOT/target/debug/bita
LOOP=
cleanup() { [ -n "$LOOP" ] && losetup -d "$LOOP" 2>/dev/null; rm -rf "$W"; }
trap cleanup EXIT
cd "$W" || exit 2

cat > craft.py <<'EOF'
# Writes a checksum-valid archive whose dictionary lies about the size of chunk X.
import hashlib, struct, sys

def varint(n):
    out = b''
    while True:
        b = n & 0x7f
        n >>= 7
        if n:
            out += bytes([b | 0x80])
        else:
            return out + bytes([b])
def f_varint(no, v): return b'' if v == 0 else varint(no << 3) + varint(v)
def f_bytes(no, b): return varint(no << 3 | 2) + varint(len(b)) + b
def descriptor(checksum, archive_size, archive_offset, source_size):
    return (f_bytes(1, checksum) + f_varint(3, archive_size) +
            f_varint(4, archive_offset) + f_varint(5, source_size))
def b2(d): return hashlib.blake2b(d, digest_size=64).digest()

X = bytes([0x58]) * 100        # 'X' * 100, the dictionary says it is 50 bytes in the source
Y = bytes([0x59]) * 50         # 'Y' * 50
order = sys.argv[1]            # 'XY': source is X at 0, Y at 50; 'YX': Y at 0, X at 50
out = sys.argv[2]

# Chunk data in the archive: Y first, then X. Chunks are fetched in this order.
descriptors = [
    descriptor(b2(Y), archive_size=50, archive_offset=0, source_size=50),
    descriptor(b2(X), archive_size=100, archive_offset=50, source_size=50),   # <- the lie
]
rebuild_order = [1, 0] if order == 'XY' else [0, 1]
params = f_varint(3, 50) + f_varint(5, 64) + f_varint(6, 2)   # FIXED_SIZE 50, hash length 64
dictionary = (f_bytes(1, b'0.13.0') +
              f_bytes(2, b2(b'')) +                  # source checksum, not looked at without --verify-output
              f_varint(3, 100) +                     # source_total_size = 50 + 50, the sum of the recorded sizes
              f_bytes(4, params) +
              f_bytes(5, b'') +                      # compression NONE
              f_bytes(6, b''.join(varint(i) for i in rebuild_order)) +
              b''.join(f_bytes(7, d) for d in descriptors))
header = b'BITA1\0' + struct.pack('<Q', len(dictionary)) + dictionary
header += struct.pack('<Q', len(header) + 8 + 64)
header += b2(header)
open(out, 'wb').write(header + Y + X)
EOF
python3 craft.py XY xy.cba || exit 2
python3 craft.py YX yx.cba || exit 2

FAIL=0

echo "=== part 1: regular file, source = X(50 recorded, 100 real) at 0, Y(50) at 50"
"$BITA" clone xy.cba out1 >clone1.out 2>clone1.err
RC=$?
echo "bita clone exit status $RC"; cat clone1.err
if [ $RC -ne 0 ] && grep -q "chunk size does not match" clone1.err; then
    echo "PASS: chunk of the wrong size refused"
elif [ $RC -eq 0 ]; then
    echo -n "output bytes 50..100: "; tail -c +51 out1 | head -c 50; echo
    if [ "$(tail -c +51 out1 | head -c 50)" != "$(printf 'Y%.0s' $(seq 50))" ]; then
        echo "FAIL: clone reported success but the place of chunk Y holds bytes of chunk X"
        FAIL=1
    fi
else
    echo "FAIL: unexpected error"; FAIL=1
fi

echo "=== part 2: block device, source = Y(50) at 0, X(50 recorded, 100 real) at 50, source size 100"
truncate -s 1M disk.img
LOOP=$(losetup -f --show disk.img 2>/dev/null)
if [ -z "$LOOP" ]; then
    echo "SKIP: no loop device to be had here"
else
    python3 -c "open('$LOOP','r+b').write(b'.' * 4096)"
    "$BITA" clone -f yx.cba "$LOOP" >clone2.out 2>clone2.err
    RC=$?
    echo "bita clone exit status $RC"; cat clone2.err
    sync
    BEYOND=$(dd if="$LOOP" bs=1 skip=100 count=60 2>/dev/null)
    echo "device bytes 100..160: $BEYOND"
    if [ "$BEYOND" != "$(printf '.%.0s' $(seq 60))" ]; then
        echo "FAIL: bytes beyond the end of the source (100) were written to the device"
        FAIL=1
    elif [ $RC -ne 0 ] && grep -q "chunk size does not match" clone2.err; then
        echo "PASS: chunk of the wrong size refused, nothing written beyond the source"
    else
        echo "FAIL: unexpected result"; FAIL=1
    fi
fi
exit $FAIL
