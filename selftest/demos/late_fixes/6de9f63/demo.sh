#!/bin/bash
# 6de9f63: the rollsum start values were computed with checked multiplications: a rolling window of
# 11772 bytes or more panics in a build with overflow checks (cargo build = dev profile has them on).
# Usage: ROOT=<worktree> bash demo.sh      exit 0 = defect absent, non-zero = defect present
set -u
export RUST_BACKTRACE=0 RUST_LIB_BACKTRACE=0
: "${ROOT:?set ROOT to the bita worktree}"
(cd "$ROOT" && cargo build --offline >/dev/null 2>&1) || { echo "build failed"; exit 99; }
BITA="$ROOT/target/debug/bita"
W=$(mktemp -d "${TMPDIR:-/tmp}/6de9f63.XXXXXX")
trap 'rm -rf "$W"' EXIT
cd "$W"

python3 - <<'EOF'
import random
random.seed(5)
open("input.bin", "wb").write(random.randbytes(600000))
EOF

fail=0
try() {
    win=$1; expect=$2
    rm -f out.cba out..tmp output.bin
    timeout 120 "$BITA" compress -i input.bin --rolling-window-size "$win" out.cba > run.log 2>&1
    rc=$?
    echo "bita compress -i input.bin --rolling-window-size $win out.cba -> exit $rc"
    if [ $rc -eq 101 ] || grep -q 'panicked at' run.log; then
        grep -A1 'panicked at' run.log | sed -n '1,2s/^/    /p'
        if [ "$expect" = may-fail ]; then echo "DEFECT: panic in RollSum"; fail=1; else echo "unexpected: control panics"; fail=1; fi
        return
    fi
    [ $rc -eq 0 ] || { sed -n '1,4s/^/    /p' run.log; echo "unexpected failure"; fail=1; return; }
    timeout 120 "$BITA" clone --verify-output out.cba output.bin > clone.log 2>&1
    rc=$?
    if [ $rc -ne 0 ] || ! cmp -s output.bin input.bin; then
        echo "clone back -> exit $rc"; sed -n '1,4s/^/    /p' clone.log; echo "DEFECT: round trip failed"; fail=1
    else
        echo "    ok: archive written, clone back identical to the source"
    fi
}
# 11771 * 11770 * 31 = 4294838170 < 2^32 <= 11772 * 11771 * 31 = 4295614572
try 11771 control
try 11772 may-fail
try 64KiB may-fail
exit $fail
