#!/bin/bash
# Reproduction for e660aa5: the chunk hash length of the dictionary is taken over
# as is. Length 0: every chunk has the same (empty) key, the first chunk found is
# written at every offset. Length above the stored checksums: no chunk is recognised.
#
# usage: ROOT=<worktree> bash demo.sh      exit 0 = defect absent, 1 = defect present
set -u
export RUST_BACKTRACE=0
ROOT=${ROOT:?set ROOT to the bita worktree}
W=$(mktemp -d)
(cd "$ROOT" && cargo build --offline) >"$W/build.log" 2>&1 || { cat "$W/build.log"; echo "build failed"; exit 2; }
BITA=$ROOT/target/debug/bita
trap 'rm -rf "$W"' EXIT
cd "$W" || exit 2

cat > craft.py <<'EOF'
# usage: craft.py <chunk_hash_length> <stored checksum length> <archive>
# Writes 'src' (4 chunks of 64 bytes: 'A'*64 'B'*64 'C'*64 'D'*64) and an otherwise
# correct, checksum-valid, uncompressed archive of it.
import hashlib, struct, sys

def varint(n):
    out = b''
    while True:
        b = n & 0x7f
        n >>= 7
        if n:
            out += bytes([b | 0x80])
        else:
            return out + bytes([b])
def f_varint(no, v): return b'' if v == 0 else varint(no << 3) + varint(v)
def f_bytes(no, b): return varint(no << 3 | 2) + varint(len(b)) + b
def descriptor(checksum, archive_size, archive_offset, source_size):
    return (f_bytes(1, checksum) + f_varint(3, archive_size) +
            f_varint(4, archive_offset) + f_varint(5, source_size))
def b2(d): return hashlib.blake2b(d, digest_size=64).digest()

hash_length, stored, out = int(sys.argv[1]), int(sys.argv[2]), sys.argv[3]
chunks = [bytes([c]) * 64 for c in b'ABCD']
src = b''.join(chunks)
open('src', 'wb').write(src)
descriptors = [descriptor(b2(c)[:stored], 64, 64 * i, 64) for i, c in enumerate(chunks)]
params = f_varint(3, 64) + f_varint(5, hash_length) + f_varint(6, 2)   # FIXED_SIZE 64
dictionary = (f_bytes(1, b'0.13.0') +
              f_bytes(2, b2(src)) +
              f_varint(3, len(src)) +
              f_bytes(4, params) +
              f_bytes(5, b'') +                      # compression NONE
              f_bytes(6, bytes([0, 1, 2, 3])) +
              b''.join(f_bytes(7, d) for d in descriptors))
header = b'BITA1\0' + struct.pack('<Q', len(dictionary)) + dictionary
header += struct.pack('<Q', len(header) + 8 + 64)
header += b2(header)
open(out, 'wb').write(header + src)
EOF

FAIL=0
check() {   # name archive clone-args...
    local name=$1 archive=$2; shift 2
    "$BITA" -v clone "$@" "$archive" "out-$name" >"$name.out" 2>"$name.err"
    local rc=$?
    echo "bita -v clone $* $archive out-$name: exit status $rc"; grep -v "^\[.*(INFO)" "$name.err"
    grep -h "Successfully cloned" "$name.out" "$name.err"
    if [ $rc -ne 0 ] && grep -q "invalid chunk hash length" "$name.err"; then
        echo "PASS: archive refused"
    elif [ $rc -eq 0 ] && [ "$*" = "--seed src" ] && ! cat "$name.out" "$name.err" | grep -q "using 0 bytes from archive and 256 bytes from seeds"; then
        echo "FAIL: the seed is the source itself but its chunks were not recognised"
        FAIL=1
    elif [ $rc -eq 0 ] && cmp -s src "out-$name"; then
        echo "PASS: output equals the source"
    elif [ $rc -eq 0 ]; then
        echo "FAIL: clone reported success but the output is not the source:"
        fold -w 64 "out-$name" | tr '\0' '0'; echo
        FAIL=1
    else
        echo "FAIL: unexpected error"; FAIL=1
    fi
}

echo "=== sanity: chunk_hash_length 64, stored checksums 64 bytes (a correct archive), without and with the source as seed"
python3 craft.py 64 64 good.cba || exit 2
check good good.cba
check goodseed good.cba --seed src
echo "=== case A: chunk_hash_length 0, stored checksums 64 bytes"
python3 craft.py 0 64 len0.cba || exit 2
check len0 len0.cba
echo "=== case B: chunk_hash_length 64, stored checksums 32 bytes, cloned with the source as seed"
python3 craft.py 64 32 short.cba || exit 2
check short short.cba --seed src
exit $FAIL
