#!/bin/bash
# fc98607: clone --verify-output to a block device which is bigger than the source must check
# the cloned part only, not the whole device.
# Needs root and a free loop device (losetup). Backing files live in a scratch directory.
# Usage: ROOT=<worktree> bash demo.sh      exit 0 = defect absent, non-zero = defect present
#        exit 97 = no block device could be set up here (nothing shown)
set -u
export RUST_BACKTRACE=0 RUST_LIB_BACKTRACE=0
: "${ROOT:?set ROOT to the bita worktree}"
(cd "$ROOT" && cargo build --offline >/dev/null 2>&1) || { echo "build failed"; exit 99; }
BITA="$ROOT/target/debug/bita"
W=$(mktemp -d "${TMPDIR:-/tmp}/fc98607.XXXXXX")
BIG=""; EXACT=""
cleanup() {
    [ -n "$BIG" ] && losetup -d "$BIG" 2>/dev/null
    [ -n "$EXACT" ] && losetup -d "$EXACT" 2>/dev/null
    rm -rf "$W"
}
trap cleanup EXIT
cd "$W"

# Source: 307200 bytes (600 sectors). Devices: one of 1 MiB whose unused part is not zero, one of exactly 307200 bytes.
python3 - <<'EOF'
import random
random.seed(6)
open("source.bin", "wb").write(random.randbytes(307200))
open("big.img", "wb").write(b"\xaa" * (1024 * 1024))
open("exact.img", "wb").write(b"\xaa" * 307200)
EOF
BIG=$(losetup -f --show big.img 2>losetup.err) || { BIG=""; echo "no loop device: $(cat losetup.err)"; exit 97; }
EXACT=$(losetup -f --show exact.img 2>losetup.err) || { EXACT=""; echo "no loop device: $(cat losetup.err)"; exit 97; }
[ -b "$BIG" ] && [ -b "$EXACT" ] || { echo "loop devices are not block devices"; exit 97; }
echo "block devices: $BIG $(blockdev --getsize64 "$BIG") bytes, $EXACT $(blockdev --getsize64 "$EXACT") bytes; source 307200 bytes"

timeout 60 "$BITA" compress -i source.bin source.cba > /dev/null 2>&1 || { echo "could not build the archive"; exit 98; }

fail=0
# Control: a device of exactly the size of the source verifies with and without the repair.
timeout 60 "$BITA" clone --force-create --verify-output source.cba "$EXACT" > exact.log 2>&1
rc=$?
echo "bita clone --force-create --verify-output source.cba $EXACT (same size) -> exit $rc"
[ $rc -eq 0 ] || { grep -m2 -E 'Error|mismatch' exact.log | sed 's/^/    /'; echo "unexpected: control failed"; fail=1; }

timeout 60 "$BITA" clone --force-create --verify-output source.cba "$BIG" > big.log 2>&1
rc=$?
echo "bita clone --force-create --verify-output source.cba $BIG (bigger) -> exit $rc"
grep -m2 -E 'Error|mismatch|verified' big.log | cut -c1-160 | sed 's/^/    /'
sync
if cmp -s -n 307200 big.img source.bin; then
    echo "    the first 307200 bytes of the device are identical to the source"
else
    echo "    unexpected: the device does not hold the source"; fail=1
fi
if [ $rc -ne 0 ]; then
    if grep -q 'Checksum mismatch' big.log; then
        echo "DEFECT: a correct clone is reported as a checksum mismatch (the checksum was taken of the whole device)"
    fi
    fail=1
else
    echo "ok: the clone verifies"
fi

exit $fail
