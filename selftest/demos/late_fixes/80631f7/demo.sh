#!/bin/bash
# 80631f7: compress with the buzhash chunker and a rolling window bigger than the max chunk size
# must be refused as a bad option, not accepted and then panic in the chunker.
# Usage: ROOT=<worktree> bash demo.sh      exit 0 = defect absent, non-zero = defect present
set -u
export RUST_BACKTRACE=0 RUST_LIB_BACKTRACE=0
: "${ROOT:?set ROOT to the bita worktree}"
(cd "$ROOT" && cargo build --offline >/dev/null 2>&1) || { echo "build failed"; exit 99; }
BITA="$ROOT/target/debug/bita"
W=$(mktemp -d "${TMPDIR:-/tmp}/80631f7.XXXXXX")
trap 'rm -rf "$W"' EXIT
cd "$W"

python3 - <<'EOF'
import random
random.seed(3)
open("input.bin", "wb").write(random.randbytes(20000))
EOF

fail=0
run() {
    timeout 60 "$BITA" compress -i input.bin "$@" out.cba > run.log 2>&1
    rc=$?
    echo "bita compress -i input.bin $* out.cba -> exit $rc"
    sed -n '1,4s/^/    /p' run.log
    if [ $rc -eq 101 ] || grep -q 'panicked at' run.log; then
        echo "DEFECT: the options were accepted and the chunker panicked"; fail=1
    elif [ $rc -eq 0 ]; then
        echo "unexpected: accepted and ran to the end"; fail=1
    elif ! grep -q "Rolling window size can't be bigger than the max chunk size" run.log; then
        echo "unexpected: refused, but not because of the window"; fail=1
    else
        echo "ok: refused as an option error"
    fi
    rm -f out.cba out..tmp
}
# The default buzhash window is 16 bytes, a max chunk size below that is enough.
run --hash-chunking BuzHash --min-chunk-size 4 --avg-chunk-size 8 --max-chunk-size 12
# The same with an explicit window.
run --hash-chunking BuzHash --rolling-window-size 64 --min-chunk-size 8 --avg-chunk-size 16 --max-chunk-size 48

# Sanity: window == max chunk size is legal and works.
timeout 60 "$BITA" compress -i input.bin --hash-chunking BuzHash --min-chunk-size 4 --avg-chunk-size 8 --max-chunk-size 16 ok.cba > ok.log 2>&1 \
    || { echo "sanity: window == max chunk size failed"; sed -n '1,4s/^/    /p' ok.log; fail=1; }
exit $fail
