#!/bin/bash
# Reproduction for 468def0: the source size of the dictionary is not related to the
# chunks the source is built from. It is what the output is resized to and what a
# block device is checked against before anything is written.
#
# usage: ROOT=<worktree> bash demo.sh      exit 0 = defect absent, 1 = defect present
set -u
export RUST_BACKTRACE=0
ROOT=${ROOT:?set ROOT to the bita worktree}
W=$(mktemp -d)
(cd "$ROOT" && cargo build --offline) >"$W/build.log" 2>&1 || { cat "$W/build.log"; echo "build failed"; exit 2; }
BITA=$ROOT/target/debug/bita
LOOP=
cleanup() { [ -n "$LOOP" ] && losetup -d "$LOOP" 2>/dev/null; rm -rf "$W"; }
trap cleanup EXIT
cd "$W" || exit 2

cat > craft.py <<'EOF'
# usage: craft.py <source_total_size> <archive>
# Writes 'src' (8 chunks of 1024 bytes: 'A'*1024 ... 'H'*1024 = 8192 bytes) and a
# checksum-valid, uncompressed archive of it which is correct in everything but
# the source_total_size of its dictionary.
import hashlib, struct, sys

def varint(n):
    out = b''
    while True:
        b = n & 0x7f
        n >>= 7
        if n:
            out += bytes([b | 0x80])
        else:
            return out + bytes([b])
def f_varint(no, v): return b'' if v == 0 else varint(no << 3) + varint(v)
def f_bytes(no, b): return varint(no << 3 | 2) + varint(len(b)) + b
def descriptor(checksum, archive_size, archive_offset, source_size):
    return (f_bytes(1, checksum) + f_varint(3, archive_size) +
            f_varint(4, archive_offset) + f_varint(5, source_size))
def b2(d): return hashlib.blake2b(d, digest_size=64).digest()

total_size, out = int(sys.argv[1]), sys.argv[2]
chunks = [bytes([c]) * 1024 for c in b'ABCDEFGH']
src = b''.join(chunks)
open('src', 'wb').write(src)
descriptors = [descriptor(b2(c), 1024, 1024 * i, 1024) for i, c in enumerate(chunks)]
params = f_varint(3, 1024) + f_varint(5, 64) + f_varint(6, 2)   # FIXED_SIZE 1024, hash length 64
dictionary = (f_bytes(1, b'0.13.0') +
              f_bytes(2, b2(src)) +
              f_varint(3, total_size) +              # <- the lie
              f_bytes(4, params) +
              f_bytes(5, b'') +                      # compression NONE
              f_bytes(6, bytes(range(8))) +
              b''.join(f_bytes(7, d) for d in descriptors))
header = b'BITA1\0' + struct.pack('<Q', len(dictionary)) + dictionary
header += struct.pack('<Q', len(header) + 8 + 64)
header += b2(header)
open(out, 'wb').write(header + src)
EOF

FAIL=0
check_file() {   # name archive
    local name=$1 archive=$2
    "$BITA" clone "$archive" "out-$name" >"$name.out" 2>"$name.err"
    local rc=$?
    echo "bita clone $archive out-$name: exit status $rc"; cat "$name.err"
    if [ $rc -ne 0 ] && grep -q "invalid source size" "$name.err"; then
        echo "PASS: archive refused"
    elif [ $rc -eq 0 ] && cmp -s src "out-$name"; then
        echo "PASS: output equals the source"
    elif [ $rc -eq 0 ]; then
        echo "FAIL: clone reported success, the source is 8192 bytes but the output is $(stat -c %s "out-$name") bytes"
        FAIL=1
    else
        echo "FAIL: unexpected error"; FAIL=1
    fi
}

echo "=== sanity: source_total_size 8192 (correct)"
python3 craft.py 8192 good.cba || exit 2
check_file good good.cba
echo "=== case A: source_total_size 9192 (too big), regular file"
python3 craft.py 9192 big.cba || exit 2
check_file big big.cba
echo "=== case B: source_total_size 1024 (too small), regular file"
python3 craft.py 1024 small.cba || exit 2
check_file small small.cba

echo "=== case C: source_total_size 1024 (too small), block device of 4096 bytes which can not hold the 8192 byte source"
truncate -s 4096 disk.img
LOOP=$(losetup -f --show disk.img 2>/dev/null)
if [ -z "$LOOP" ]; then
    echo "SKIP: no loop device to be had here"
else
    python3 -c "open('$LOOP','r+b').write(b'.' * 4096)"
    sync
    "$BITA" clone -f small.cba "$LOOP" >dev.out 2>dev.err
    RC=$?
    echo "bita clone -f small.cba $LOOP: exit status $RC"; cat dev.err
    sync
    echo "device content: $(dd if="$LOOP" bs=4096 count=1 2>/dev/null | fold -w 1024 | cut -c1-8 | tr '\n' ' ')(first 8 bytes of each KiB)"
    if [ "$(dd if="$LOOP" bs=4096 count=1 2>/dev/null | tr -d '.' | wc -c)" -ne 0 ]; then
        echo "FAIL: the device can not hold the source and was overwritten all the same"
        FAIL=1
    elif [ $RC -ne 0 ] && grep -q "invalid source size" dev.err; then
        echo "PASS: archive refused, device untouched"
    else
        echo "FAIL: unexpected result"; FAIL=1
    fi
fi
exit $FAIL
