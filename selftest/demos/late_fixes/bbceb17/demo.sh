#!/bin/bash
# bbceb17: compress must not replace a file it finds at the place of its temporary file.
# Usage: ROOT=<worktree> bash demo.sh      exit 0 = defect absent, non-zero = defect present
set -u
export RUST_BACKTRACE=0 RUST_LIB_BACKTRACE=0
: "${ROOT:?set ROOT to the bita worktree}"
(cd "$ROOT" && cargo build --offline >/dev/null 2>&1) || { echo "build failed"; exit 99; }
BITA="$ROOT/target/debug/bita"
W=$(mktemp -d "${TMPDIR:-/tmp}/bbceb17.XXXXXX")
trap 'rm -rf "$W"' EXIT
cd "$W"

python3 - <<'EOF'
import random
random.seed(1)
open("input.bin", "wb").write(random.randbytes(300000))
EOF

fail=0

# Case 1: a regular file of somebody else sits at <stem>..tmp (the temporary file of out.cba).
printf 'precious data, not ours\n' > out..tmp
cp out..tmp precious.copy
"$BITA" compress -i input.bin out.cba > case1.log 2>&1
rc=$?
echo "case 1: bita compress -i input.bin out.cba -> exit $rc"
sed -n '1,6s/^/    /p' case1.log
if [ ! -e out..tmp ]; then
    echo "case 1 DEFECT: out..tmp was removed"; fail=1
elif ! cmp -s out..tmp precious.copy; then
    echo "case 1 DEFECT: out..tmp was overwritten ($(stat -c %s out..tmp) bytes now)"; fail=1
else
    echo "case 1 ok: out..tmp untouched"
fi
rm -f out.cba out..tmp

# Case 2: a symbolic link sits at the place of the temporary file, it points to a file elsewhere.
mkdir elsewhere
printf 'victim file behind a symbolic link\n' > elsewhere/victim
cp elsewhere/victim victim.copy
ln -s elsewhere/victim out..tmp
"$BITA" compress -i input.bin out.cba > case2.log 2>&1
rc=$?
echo "case 2: out..tmp -> elsewhere/victim; bita compress -i input.bin out.cba -> exit $rc"
sed -n '1,6s/^/    /p' case2.log
if ! cmp -s elsewhere/victim victim.copy; then
    echo "case 2 DEFECT: elsewhere/victim was written through the link ($(stat -c %s elsewhere/victim) bytes now)"; fail=1
else
    echo "case 2 ok: elsewhere/victim untouched"
fi
rm -f out.cba out..tmp

# Case 3: the input itself is named like the temporary file of the output.
cp input.bin data..tmp
"$BITA" compress -i data..tmp data.cba > case3.log 2>&1
rc=$?
echo "case 3: bita compress -i data..tmp data.cba -> exit $rc"
sed -n '1,6s/^/    /p' case3.log
if ! cmp -s data..tmp input.bin; then
    echo "case 3 DEFECT: the input data..tmp was emptied / removed"; fail=1
else
    echo "case 3 ok: input untouched"
fi

# Sanity: with --force-create the file in the way is replaced and the archive is written.
printf 'stale temporary file\n' > out..tmp
"$BITA" compress --force-create -i input.bin out.cba > case4.log 2>&1 || { echo "sanity: --force-create failed"; sed -n '1,6s/^/    /p' case4.log; fail=1; }
[ -s out.cba ] || { echo "sanity: no archive written with --force-create"; fail=1; }

exit $fail
