#!/bin/bash
# ce23d09: a rollsum archive whose rolling hash window (default 64 B) is bigger than its max chunk size
# is a valid archive (bita compress writes it) and must be readable again.
# Usage: ROOT=<worktree> bash demo.sh      exit 0 = defect absent, non-zero = defect present
set -u
export RUST_BACKTRACE=0 RUST_LIB_BACKTRACE=0
: "${ROOT:?set ROOT to the bita worktree}"
(cd "$ROOT" && cargo build --offline >/dev/null 2>&1) || { echo "build failed"; exit 99; }
BITA="$ROOT/target/debug/bita"
W=$(mktemp -d "${TMPDIR:-/tmp}/ce23d09.XXXXXX")
trap 'rm -rf "$W"' EXIT
cd "$W"

python3 - <<'EOF'
import random
random.seed(2)
open("input.bin", "wb").write(random.randbytes(20000))
EOF

fail=0
# compress writes the whole archive and then opens it again to print its summary.
"$BITA" compress -i input.bin --min-chunk-size 8 --avg-chunk-size 16 --max-chunk-size 48 small.cba > compress.log 2>&1
rc=$?
echo "bita compress -i input.bin --min-chunk-size 8 --avg-chunk-size 16 --max-chunk-size 48 small.cba -> exit $rc"
grep -E 'Chunking algorithm|window size|maximum size' compress.log | sed 's/^/    /'
if [ ! -s small.cba ]; then
    echo "unexpected: compress did not write the archive"; sed -n '1,6s/^/    /p' compress.log; exit 98
fi
echo "    small.cba written, $(stat -c %s small.cba) bytes"
if [ $rc -ne 0 ]; then
    sed -n '1,6s/^/    /p' compress.log; echo "DEFECT: compress can not read back the archive it has just written"; fail=1
fi

"$BITA" info small.cba > info.log 2>&1
rc=$?
echo "bita info small.cba -> exit $rc"
[ $rc -eq 0 ] || { sed -n '1,6s/^/    /p' info.log; echo "DEFECT: info refuses the archive compress just wrote"; fail=1; }

"$BITA" clone --verify-output small.cba output.bin > clone.log 2>&1
rc=$?
echo "bita clone --verify-output small.cba output.bin -> exit $rc"
if [ $rc -ne 0 ]; then
    sed -n '1,6s/^/    /p' clone.log; echo "DEFECT: clone refuses the archive compress just wrote"; fail=1
elif ! cmp -s output.bin input.bin; then
    echo "DEFECT: the clone differs from the source"; fail=1
else
    echo "ok: the clone is identical to the source"
fi
exit $fail
