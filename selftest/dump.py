#!/usr/bin/env python3
"""debug aid: print the (inlined) body of a function from a facts directory:  dump.py <factsdir> <substring of q> [--raw]"""
import sys, os, glob, json
sys.path.insert(0, os.path.join(os.path.dirname(__file__), '..'))
from bvlib.facts import Facts, callee_q

def pl(b, p):
    s = b.name(p['l']) or '_%d' % p['l']
    s = '%s/_%d' % (s, p['l'])
    for e in p['p']:
        s += '.' + (str(e) if not isinstance(e, dict) else ','.join('%s' % v for v in e.values()))
    return s

def op(b, o):
    if o['k'] in ('copy', 'move'):
        return o['k'][0] + ':' + pl(b, o['pl'])
    return 'const(%s)' % (o.get('fn') or o.get('v') if 'v' in o else o.get('fn') or o.get('s') or o)

def main():
    fd, sub = sys.argv[1], sys.argv[2]
    f = Facts([os.path.join(fd, 'bitar.lib.json'), os.path.join(fd, 'bita.bin.json')], inline='--raw' not in sys.argv)
    for b in f.bodies.values():
        if sub not in b.q:
            continue
        print('=====', b.q, b.id)
        for bi in sorted(b.live):
            blk = b.blocks[bi]
            print(' bb%d:' % bi)
            for st in blk['stmts']:
                if st['k'] == 'assign':
                    rv = st['rv']
                    d = {k: v for k, v in rv.items() if k not in ('ops', 'a', 'b', 'op', 'pl')}
                    parts = []
                    for k in ('op', 'a', 'b'):
                        if isinstance(rv.get(k), dict):
                            parts.append(op(b, rv[k]))
                    if 'ops' in rv:
                        parts += [op(b, o) for o in rv['ops']]
                    if 'pl' in rv:
                        parts.append(pl(b, rv['pl']))
                    print('    %s = %s %s   [%s]' % (pl(b, st['pl']), d, parts, st.get('loc', '')))
                else:
                    print('    ', {k: v for k, v in st.items()})
            t = blk['term']
            if t['k'] == 'call':
                print('    CALL %s = %s(%s) -> bb%s unwind %s [%s]' % (pl(b, t['dest']), callee_q(t) if 'q' in t['callee'] else t['callee'], ', '.join(op(b, a) for a in t['args']), t.get('t'), t.get('u'), t['loc']))
            elif t['k'] == 'switch':
                print('    SWITCH %s vals %s -> %s else bb%s' % (op(b, t['op']), t['vals'], t['targets'], t['otherwise']))
            else:
                print('    TERM', {k: v for k, v in t.items()})
main()
