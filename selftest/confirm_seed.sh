#!/bin/bash
# Confirm a seeded change independently, in a scratch worktree of /repo (never in /repo itself):
#   confirm_seed.sh <worktree> <dir with patch.diff + demo> [test-destination-dir, default bitar/tests]
# 1. the patch applies and the unedited suite stays green (92 passed, 0 failed)
# 2. the demonstration fails with the patch
# 3. the demonstration passes without it
# Demonstrations: demo.sh (run with ROOT=<worktree>) or a single *.rs integration test copied to <test-destination-dir>.
set -u
WT="$1"; SD="$(cd "$2" && pwd)"; TDEST="${3:-bitar/tests}"
cd "$WT" || exit 2
git checkout -q -- . || exit 2
run_demo() {
    if [ -f "$SD/demo.sh" ]; then
        ROOT="$WT" bash "$SD/demo.sh" >"$SD/.demo.log" 2>&1
        return $?
    fi
    local rs; rs="$(ls "$SD"/*.rs 2>/dev/null | head -1)"
    [ -n "$rs" ] || { echo "no demonstration found"; return 99; }
    local name; name="$(basename "$rs" .rs)"
    mkdir -p "$WT/$TDEST"; cp "$rs" "$WT/$TDEST/$name.rs"
    local pkg=bitar; [ "$TDEST" = "tests" ] && pkg=bita
    (cd "$WT" && cargo test --workspace --offline --test "$name" >"$SD/.demo.log" 2>&1)
    local rc=$?
    rm -f "$WT/$TDEST/$name.rs"
    return $rc
}
git apply "$SD/patch.diff" || { echo "RESULT patch-does-not-apply"; exit 2; }
out="$(cargo test --workspace --no-fail-fast --offline 2>&1)"
passed=$(echo "$out" | grep -E '^test result' | sed -E 's/.* ([0-9]+) passed.*/\1/' | paste -sd+ | bc)
failed=$(echo "$out" | grep -E '^test result' | sed -E 's/.* ([0-9]+) failed.*/\1/' | paste -sd+ | bc)
echo "suite-with-patch: passed=$passed failed=$failed"
run_demo; with=$?
echo "demo-with-patch: exit=$with"
git checkout -q -- .
run_demo; without=$?
echo "demo-without-patch: exit=$without"
git checkout -q -- .
if [ "$passed" = "92" ] && [ "$failed" = "0" ] && [ "$with" != "0" ] && [ "$with" != "99" ] && [ "$without" = "0" ]; then
    echo "RESULT confirmed"
else
    echo "RESULT NOT-confirmed"
fi
