#![feature(rustc_private)]
// bvdrv: export a normalised, type-resolved MIR (mir_promoted, pre-coroutine-transform) of the
// bita workspace crates as JSON facts. Zero cargo dependencies.
extern crate rustc_abi;
extern crate rustc_driver;
extern crate rustc_hir;
extern crate rustc_interface;
extern crate rustc_middle;
extern crate rustc_span;

use rustc_driver::Compilation;
use rustc_hir::def::DefKind;
use rustc_hir::def_id::{DefId, LOCAL_CRATE};
use rustc_interface::interface;
use rustc_middle::mir::{
    self, AggregateKind, BasicBlock, Body, Operand, Place, ProjectionElem, Rvalue, StatementKind,
    TerminatorKind,
};
use rustc_middle::ty::{self, Ty, TyCtxt};
use rustc_span::Span;
use std::collections::HashMap;
use std::fmt::Write as _;

// ---------------------------------------------------------------- tiny JSON
enum J {
    Null,
    B(bool),
    I(i128),
    S(String),
    A(Vec<J>),
    O(Vec<(&'static str, J)>),
}
fn esc(s: &str, out: &mut String) {
    out.push('"');
    for c in s.chars() {
        match c {
            '"' => out.push_str("\\\""),
            '\\' => out.push_str("\\\\"),
            '\n' => out.push_str("\\n"),
            '\t' => out.push_str("\\t"),
            '\r' => out.push_str("\\r"),
            c if (c as u32) < 0x20 => {
                let _ = write!(out, "\\u{:04x}", c as u32);
            }
            c => out.push(c),
        }
    }
    out.push('"');
}
impl J {
    fn write(&self, out: &mut String) {
        match self {
            J::Null => out.push_str("null"),
            J::B(b) => out.push_str(if *b { "true" } else { "false" }),
            J::I(i) => {
                let _ = write!(out, "{}", i);
            }
            J::S(s) => esc(s, out),
            J::A(v) => {
                out.push('[');
                for (i, x) in v.iter().enumerate() {
                    if i > 0 {
                        out.push(',');
                    }
                    x.write(out);
                }
                out.push(']');
            }
            J::O(v) => {
                out.push('{');
                for (i, (k, x)) in v.iter().enumerate() {
                    if i > 0 {
                        out.push(',');
                    }
                    esc(k, out);
                    out.push(':');
                    x.write(out);
                }
                out.push('}');
            }
        }
    }
}
fn s<T: Into<String>>(x: T) -> J {
    J::S(x.into())
}
fn opt_s(x: Option<String>) -> J {
    match x {
        Some(v) => J::S(v),
        None => J::Null,
    }
}

// ---------------------------------------------------------------- context
struct Cx<'tcx> {
    tcx: TyCtxt<'tcx>,
    types: Vec<J>,
    ty_ix: HashMap<Ty<'tcx>, usize>,
    // promoted constants of the body being exported that are a fieldless variant of an ADT: index -> (adt, variant, index)
    prom_variants: HashMap<usize, (String, String, usize)>,
    // promoted constants that are a range of two integer constants (`1..=64`): index -> (low, high, inclusive)
    prom_ranges: HashMap<usize, (i128, i128, bool)>,
}

fn def_id_str(tcx: TyCtxt<'_>, did: DefId) -> String {
    format!("{}{}", tcx.crate_name(did.krate), tcx.def_path(did).to_string_no_crate_verbose())
}

/// A name that is stable against impl-block numbering: `<adt>::method`,
/// `<SelfTy as trait>::method`, `trait::method`, or the plain def path.
fn qual_name<'tcx>(tcx: TyCtxt<'tcx>, did: DefId) -> String {
    let kind = tcx.def_kind(did);
    if matches!(kind, DefKind::AssocFn) {
        let name = tcx.item_name(did).to_string();
        if let Some(imp) = tcx.impl_of_assoc(did) {
            let self_ty = tcx.type_of(imp).instantiate_identity().skip_norm_wip();
            let self_s = match self_ty.kind() {
                ty::Adt(adt, _) => def_id_str(tcx, adt.did()),
                _ => ty::print::with_no_trimmed_paths!(format!("{}", self_ty)),
            };
            if let Some(tr) = tcx.impl_opt_trait_ref(imp) {
                let tr = tr.instantiate_identity().skip_norm_wip();
                return format!("<{} as {}>::{}", self_s, def_id_str(tcx, tr.def_id), name);
            }
            return format!("{}::{}", self_s, name);
        }
        if let Some(tr) = tcx.trait_of_assoc(did) {
            return format!("{}::{}", def_id_str(tcx, tr), name);
        }
    }
    def_id_str(tcx, did)
}

impl<'tcx> Cx<'tcx> {
    fn span(&self, sp: Span) -> String {
        let sm = self.tcx.sess.source_map();
        let lo = sm.lookup_char_pos(sp.lo());
        format!("{}:{}:{}", lo.file.name.prefer_local_unconditionally(), lo.line, lo.col.0 + 1)
    }

    fn ty(&mut self, t: Ty<'tcx>) -> usize {
        if let Some(&i) = self.ty_ix.get(&t) {
            return i;
        }
        let ix = self.types.len();
        self.types.push(J::Null);
        self.ty_ix.insert(t, ix);
        let tcx = self.tcx;
        let st = ty::print::with_no_trimmed_paths!(format!("{}", t));
        let mut f: Vec<(&'static str, J)> = vec![("s", s(st))];
        match t.kind() {
            ty::Bool => f.push(("k", s("bool"))),
            ty::Char => f.push(("k", s("char"))),
            ty::Int(i) => {
                f.push(("k", s("int")));
                f.push(("bits", J::I(i.bit_width().unwrap_or(64) as i128)));
            }
            ty::Uint(u) => {
                f.push(("k", s("uint")));
                f.push(("bits", J::I(u.bit_width().unwrap_or(64) as i128)));
            }
            ty::Float(_) => f.push(("k", s("float"))),
            ty::Adt(adt, args) => {
                f.push(("k", s("adt")));
                f.push(("adt", s(def_id_str(tcx, adt.did()))));
                let a: Vec<J> = args.types().map(|x| J::I(self.ty(x) as i128)).collect();
                f.push(("args", J::A(a)));
            }
            ty::Ref(_, inner, m) => {
                f.push(("k", s("ref")));
                f.push(("mut", J::B(m.is_mut())));
                let i = self.ty(*inner);
                f.push(("args", J::A(vec![J::I(i as i128)])));
            }
            ty::RawPtr(inner, m) => {
                f.push(("k", s("rawptr")));
                f.push(("mut", J::B(m.is_mut())));
                let i = self.ty(*inner);
                f.push(("args", J::A(vec![J::I(i as i128)])));
            }
            ty::Slice(inner) => {
                f.push(("k", s("slice")));
                let i = self.ty(*inner);
                f.push(("args", J::A(vec![J::I(i as i128)])));
            }
            ty::Array(inner, _) => {
                f.push(("k", s("array")));
                let i = self.ty(*inner);
                f.push(("args", J::A(vec![J::I(i as i128)])));
            }
            ty::Str => f.push(("k", s("str"))),
            ty::Tuple(ts) => {
                f.push(("k", s("tuple")));
                let a: Vec<J> = ts.iter().map(|x| J::I(self.ty(x) as i128)).collect();
                f.push(("args", J::A(a)));
            }
            ty::Closure(did, _) => {
                f.push(("k", s("closure")));
                f.push(("body", s(def_id_str(tcx, *did))));
            }
            ty::Coroutine(did, _) => {
                f.push(("k", s("coroutine")));
                f.push(("body", s(def_id_str(tcx, *did))));
            }
            ty::CoroutineClosure(did, _) => {
                f.push(("k", s("coroutine_closure")));
                f.push(("body", s(def_id_str(tcx, *did))));
            }
            ty::FnDef(did, _) => {
                f.push(("k", s("fndef")));
                f.push(("fn", s(def_id_str(tcx, *did))));
            }
            ty::FnPtr(..) => f.push(("k", s("fnptr"))),
            ty::Dynamic(..) => f.push(("k", s("dyn"))),
            ty::Param(_) => f.push(("k", s("param"))),
            ty::Never => f.push(("k", s("never"))),
            ty::Alias(..) => f.push(("k", s("alias"))),
            _ => f.push(("k", s("other"))),
        }
        self.types[ix] = J::O(f);
        ix
    }

    fn place(&mut self, body: &Body<'tcx>, p: &Place<'tcx>) -> J {
        let tcx = self.tcx;
        let mut proj = Vec::new();
        let mut cur = mir::PlaceRef { local: p.local, projection: &[] };
        for (i, elem) in p.projection.iter().enumerate() {
            let base_ty = cur.ty(body, tcx);
            let j = match elem {
                ProjectionElem::Deref => J::O(vec![("k", s("deref"))]),
                ProjectionElem::Field(fidx, fty) => {
                    let mut name = None;
                    let mut adt_s = None;
                    if let ty::Adt(adt, _) = base_ty.ty.kind() {
                        let vidx = base_ty.variant_index.unwrap_or(rustc_abi::FIRST_VARIANT);
                        if adt.is_enum() || adt.is_struct() || adt.is_union() {
                            if let Some(v) = adt.variants().get(vidx) {
                                if let Some(fd) = v.fields.get(fidx) {
                                    name = Some(fd.name.to_string());
                                }
                            }
                        }
                        adt_s = Some(def_id_str(tcx, adt.did()));
                    }
                    let t = self.ty(fty);
                    J::O(vec![
                        ("k", s("field")),
                        ("i", J::I(fidx.as_usize() as i128)),
                        ("n", opt_s(name)),
                        ("adt", opt_s(adt_s)),
                        ("ty", J::I(t as i128)),
                    ])
                }
                ProjectionElem::Index(l) => {
                    J::O(vec![("k", s("index")), ("l", J::I(l.as_usize() as i128))])
                }
                ProjectionElem::ConstantIndex { offset, from_end, .. } => J::O(vec![
                    ("k", s("constindex")),
                    ("off", J::I(offset as i128)),
                    ("from_end", J::B(from_end)),
                ]),
                ProjectionElem::Subslice { .. } => J::O(vec![("k", s("subslice"))]),
                ProjectionElem::Downcast(name, v) => J::O(vec![
                    ("k", s("downcast")),
                    ("v", J::I(v.as_usize() as i128)),
                    ("n", opt_s(name.map(|x| x.to_string()))),
                ]),
                ProjectionElem::OpaqueCast(_) => J::O(vec![("k", s("opaque"))]),
                _ => J::O(vec![("k", s("otherproj"))]),
            };
            proj.push(j);
            cur = mir::PlaceRef { local: p.local, projection: &p.projection[..=i] };
        }
        J::O(vec![("l", J::I(p.local.as_usize() as i128)), ("p", J::A(proj))])
    }

    fn operand(&mut self, body: &Body<'tcx>, def: DefId, o: &Operand<'tcx>) -> J {
        match o {
            Operand::Copy(p) => J::O(vec![("k", s("copy")), ("pl", self.place(body, p))]),
            Operand::Move(p) => J::O(vec![("k", s("move")), ("pl", self.place(body, p))]),
            Operand::Constant(c) => {
                let tcx = self.tcx;
                let cty = c.const_.ty();
                let t = self.ty(cty);
                let mut f = vec![("k", s("const")), ("ty", J::I(t as i128))];
                f.push(("s", s(ty::print::with_no_trimmed_paths!(format!("{}", c.const_)))));
                if cty.is_integral() || cty.is_bool() || cty.is_char() {
                    let env = ty::TypingEnv::post_analysis(tcx, def);
                    if let Some(si) = c.const_.try_eval_scalar_int(tcx, env) {
                        let bits = si.to_bits(si.size());
                        let v: i128 = if cty.is_signed() {
                            let sz = si.size().bits();
                            let shift = 128 - sz as u32;
                            ((bits as i128) << shift) >> shift
                        } else {
                            bits as i128
                        };
                        f.push(("int", J::I(v)));
                    }
                }
                if let mir::Const::Unevaluated(uv, _) = c.const_ {
                    if let Some(p) = uv.promoted {
                        if let Some((adt, vn, vi)) = self.prom_variants.get(&p.as_usize()) {
                            f.push(("padt", s(adt.clone())));
                            f.push(("pvname", s(vn.clone())));
                            f.push(("pvariant", J::I(*vi as i128)));
                        }
                        if let Some((lo, hi, incl)) = self.prom_ranges.get(&p.as_usize()) {
                            f.push(("prange", J::A(vec![J::I(*lo), J::I(*hi), J::I(if *incl { 1 } else { 0 })])));
                        }
                    }
                }
                if let ty::FnDef(did, _) = cty.kind() {
                    f.push(("fn", s(def_id_str(tcx, *did))));
                    f.push(("fnq", s(qual_name(tcx, *did))));
                }
                J::O(f)
            }
            _ => J::O(vec![("k", s("otherop"))]),
        }
    }

    fn rvalue(&mut self, body: &Body<'tcx>, def: DefId, rv: &Rvalue<'tcx>) -> J {
        let tcx = self.tcx;
        match rv {
            Rvalue::Use(o, ..) => J::O(vec![("k", s("use")), ("op", self.operand(body, def, o))]),
            Rvalue::CopyForDeref(p) => J::O(vec![
                ("k", s("use")),
                ("op", J::O(vec![("k", s("copy")), ("pl", self.place(body, p))])),
            ]),
            Rvalue::Ref(_, bk, p) => J::O(vec![
                ("k", s("ref")),
                ("mut", J::B(matches!(bk, mir::BorrowKind::Mut { .. }))),
                ("pl", self.place(body, p)),
            ]),
            Rvalue::RawPtr(_, p) => J::O(vec![("k", s("rawptr")), ("pl", self.place(body, p))]),
            Rvalue::Cast(ck, o, t) => {
                let ti = self.ty(*t);
                J::O(vec![
                    ("k", s("cast")),
                    ("ck", s(format!("{:?}", ck))),
                    ("op", self.operand(body, def, o)),
                    ("ty", J::I(ti as i128)),
                ])
            }
            Rvalue::BinaryOp(op, ab) => J::O(vec![
                ("k", s("binop")),
                ("op", s(format!("{:?}", op))),
                ("a", self.operand(body, def, &ab.0)),
                ("b", self.operand(body, def, &ab.1)),
            ]),
            Rvalue::UnaryOp(op, a) => J::O(vec![
                ("k", s("unop")),
                ("op", s(format!("{:?}", op))),
                ("a", self.operand(body, def, a)),
            ]),
            Rvalue::Discriminant(p) => J::O(vec![("k", s("discr")), ("pl", self.place(body, p))]),
            Rvalue::Repeat(o, _) => {
                J::O(vec![("k", s("repeat")), ("op", self.operand(body, def, o))])
            }
            Rvalue::Aggregate(kind, ops) => {
                let mut f = vec![("k", s("agg"))];
                match &**kind {
                    AggregateKind::Array(_) => f.push(("ak", s("array"))),
                    AggregateKind::Tuple => f.push(("ak", s("tuple"))),
                    AggregateKind::Adt(did, vidx, _, _, _) => {
                        f.push(("ak", s("adt")));
                        f.push(("adt", s(def_id_str(tcx, *did))));
                        let adt = tcx.adt_def(*did);
                        let v = adt.variant(*vidx);
                        f.push(("variant", J::I(vidx.as_usize() as i128)));
                        f.push(("vname", s(v.name.to_string())));
                        f.push((
                            "fields",
                            J::A(v.fields.iter().map(|fd| s(fd.name.to_string())).collect()),
                        ));
                    }
                    AggregateKind::Closure(did, _) => {
                        f.push(("ak", s("closure")));
                        f.push(("body", s(def_id_str(tcx, *did))));
                    }
                    AggregateKind::Coroutine(did, _) => {
                        f.push(("ak", s("coroutine")));
                        f.push(("body", s(def_id_str(tcx, *did))));
                    }
                    AggregateKind::CoroutineClosure(did, _) => {
                        f.push(("ak", s("coroutine_closure")));
                        f.push(("body", s(def_id_str(tcx, *did))));
                    }
                    AggregateKind::RawPtr(..) => f.push(("ak", s("rawptr"))),
                }
                let o: Vec<J> = ops.iter().map(|o| self.operand(body, def, o)).collect();
                f.push(("ops", J::A(o)));
                J::O(f)
            }
            other => J::O(vec![("k", s("other")), ("s", s(format!("{:?}", other)))]),
        }
    }

    fn bb(b: BasicBlock) -> J {
        J::I(b.as_usize() as i128)
    }

    fn body(&mut self, def: DefId, body: &Body<'tcx>) -> J {
        let tcx = self.tcx;
        let typing_env = ty::TypingEnv::post_analysis(tcx, def);
        // user variable names
        let mut names: HashMap<usize, String> = HashMap::new();
        let mut upvar_names: Vec<J> = Vec::new();
        for vdi in &body.var_debug_info {
            if let mir::VarDebugInfoContents::Place(p) = &vdi.value {
                if p.projection.is_empty() {
                    names.entry(p.local.as_usize()).or_insert(vdi.name.to_string());
                } else {
                    upvar_names.push(J::O(vec![
                        ("name", s(vdi.name.to_string())),
                        ("pl", self.place(body, p)),
                    ]));
                }
            }
        }
        let mut locals = Vec::new();
        for (l, decl) in body.local_decls.iter_enumerated() {
            let t = self.ty(decl.ty);
            locals.push(J::O(vec![
                ("ty", J::I(t as i128)),
                ("name", opt_s(names.get(&l.as_usize()).cloned())),
                ("user", J::B(decl.is_user_variable())),
            ]));
        }
        let mut blocks = Vec::new();
        for (_bb, data) in body.basic_blocks.iter_enumerated() {
            if data.is_cleanup {
                blocks.push(J::O(vec![("cleanup", J::B(true))]));
                continue;
            }
            let mut stmts = Vec::new();
            for st in &data.statements {
                match &st.kind {
                    StatementKind::Assign(b) => {
                        let (pl, rv) = &**b;
                        stmts.push(J::O(vec![
                            ("k", s("assign")),
                            ("pl", self.place(body, pl)),
                            ("rv", self.rvalue(body, def, rv)),
                            ("loc", s(self.span(st.source_info.span))),
                            ("exp", J::B(st.source_info.span.from_expansion())),
                        ]));
                    }
                    StatementKind::SetDiscriminant { place, variant_index } => {
                        stmts.push(J::O(vec![
                            ("k", s("setdiscr")),
                            ("pl", self.place(body, place)),
                            ("v", J::I(variant_index.as_usize() as i128)),
                        ]));
                    }
                    StatementKind::StorageDead(l) => {
                        stmts.push(J::O(vec![
                            ("k", s("dead")),
                            ("l", J::I(l.as_usize() as i128)),
                        ]));
                    }
                    _ => {}
                }
            }
            let term = data.terminator();
            let loc = self.span(term.source_info.span);
            let exp = term.source_info.span.from_expansion();
            let mut tf: Vec<(&'static str, J)> = Vec::new();
            match &term.kind {
                TerminatorKind::Goto { target } => {
                    tf.push(("k", s("goto")));
                    tf.push(("t", Self::bb(*target)));
                }
                TerminatorKind::FalseEdge { real_target, .. } => {
                    tf.push(("k", s("goto")));
                    tf.push(("t", Self::bb(*real_target)));
                }
                TerminatorKind::FalseUnwind { real_target, .. } => {
                    tf.push(("k", s("goto")));
                    tf.push(("t", Self::bb(*real_target)));
                }
                TerminatorKind::SwitchInt { discr, targets } => {
                    tf.push(("k", s("switch")));
                    tf.push(("op", self.operand(body, def, discr)));
                    let mut vals = Vec::new();
                    let mut tg = Vec::new();
                    for (v, t) in targets.iter() {
                        vals.push(J::I(v as i128));
                        tg.push(Self::bb(t));
                    }
                    tf.push(("vals", J::A(vals)));
                    tf.push(("targets", J::A(tg)));
                    tf.push(("otherwise", Self::bb(targets.otherwise())));
                }
                TerminatorKind::Return => tf.push(("k", s("return"))),
                TerminatorKind::Unreachable => tf.push(("k", s("unreachable"))),
                TerminatorKind::Drop { place, target, .. } => {
                    tf.push(("k", s("drop")));
                    tf.push(("pl", self.place(body, place)));
                    tf.push(("t", Self::bb(*target)));
                }
                TerminatorKind::Call { func, args, destination, target, .. } => {
                    tf.push(("k", s("call")));
                    let fty = func.ty(body, tcx);
                    let mut cf: Vec<(&'static str, J)> = Vec::new();
                    if let ty::FnDef(did, gargs) = fty.kind() {
                        cf.push(("def", s(def_id_str(tcx, *did))));
                        cf.push(("q", s(qual_name(tcx, *did))));
                        cf.push((
                            "pretty",
                            s(ty::print::with_no_trimmed_paths!(
                                tcx.def_path_str_with_args(*did, gargs)
                            )),
                        ));
                        let targs: Vec<J> =
                            gargs.types().map(|x| J::I(self.ty(x) as i128)).collect();
                        cf.push(("targs", J::A(targs)));
                        if let Ok(Some(inst)) =
                            ty::Instance::try_resolve(tcx, typing_env, *did, gargs)
                        {
                            let rd = inst.def_id();
                            cf.push(("rdef", s(def_id_str(tcx, rd))));
                            cf.push(("rq", s(qual_name(tcx, rd))));
                        }
                    } else {
                        cf.push(("indirect", self.operand(body, def, func)));
                    }
                    tf.push(("callee", J::O(cf)));
                    let a: Vec<J> =
                        args.iter().map(|a| self.operand(body, def, &a.node)).collect();
                    tf.push(("args", J::A(a)));
                    tf.push(("dest", self.place(body, destination)));
                    tf.push(("t", target.map(Self::bb).unwrap_or(J::Null)));
                }
                TerminatorKind::Assert { cond, expected, msg, target, .. } => {
                    tf.push(("k", s("assert")));
                    tf.push(("cond", self.operand(body, def, cond)));
                    tf.push(("expected", J::B(*expected)));
                    let (ak, ops): (String, Vec<&Operand<'tcx>>) = match &**msg {
                        mir::AssertKind::BoundsCheck { len, index } => {
                            ("BoundsCheck".into(), vec![len, index])
                        }
                        mir::AssertKind::Overflow(op, a, b) => {
                            (format!("Overflow({:?})", op), vec![a, b])
                        }
                        mir::AssertKind::OverflowNeg(a) => ("OverflowNeg".into(), vec![a]),
                        mir::AssertKind::DivisionByZero(a) => ("DivisionByZero".into(), vec![a]),
                        mir::AssertKind::RemainderByZero(a) => ("RemainderByZero".into(), vec![a]),
                        other => (format!("{:?}", other), vec![]),
                    };
                    tf.push(("ak", s(ak)));
                    let o: Vec<J> = ops.iter().map(|o| self.operand(body, def, o)).collect();
                    tf.push(("ops", J::A(o)));
                    tf.push(("t", Self::bb(*target)));
                }
                TerminatorKind::Yield { value, resume, resume_arg, .. } => {
                    tf.push(("k", s("yield")));
                    tf.push(("value", self.operand(body, def, value)));
                    tf.push(("t", Self::bb(*resume)));
                    tf.push(("resume_arg", self.place(body, resume_arg)));
                }
                TerminatorKind::CoroutineDrop => tf.push(("k", s("coroutine_drop"))),
                other => {
                    tf.push(("k", s("otherterm")));
                    tf.push(("s", s(format!("{:?}", other))));
                }
            }
            tf.push(("loc", s(loc)));
            tf.push(("exp", J::B(exp)));
            if exp && matches!(data.terminator().kind, TerminatorKind::SwitchInt { .. }) {
                // which macros the branch comes from (`debug_assert` -> code that exists in debug builds only)
                let names: Vec<J> = data
                    .terminator()
                    .source_info
                    .span
                    .macro_backtrace()
                    .filter_map(|e| match e.kind {
                        rustc_span::ExpnKind::Macro(_, name) => Some(s(name.to_string())),
                        _ => None,
                    })
                    .collect();
                if !names.is_empty() {
                    tf.push(("mac", J::A(names)));
                }
            }
            blocks.push(J::O(vec![("stmts", J::A(stmts)), ("term", J::O(tf))]));
        }
        let kind = tcx.def_kind(def);
        let is_coroutine = tcx.is_coroutine(def);
        let parent = if matches!(kind, DefKind::Closure | DefKind::InlineConst | DefKind::AnonConst)
        {
            Some(def_id_str(tcx, tcx.parent(def)))
        } else {
            None
        };
        let ret_ty = self.ty(body.return_ty());
        // reachable from outside the crate (public API)? private helpers may be inlined by the analyses
        let public = match (kind, def.as_local()) {
            (DefKind::Fn | DefKind::AssocFn, Some(ld)) => tcx.effective_visibilities(()).is_reachable(ld),
            _ => false,
        };
        J::O(vec![
            ("public", J::B(public)),
            ("id", s(def_id_str(tcx, def))),
            ("q", s(qual_name(tcx, def))),
            ("pretty", s(ty::print::with_no_trimmed_paths!(tcx.def_path_str(def)))),
            ("kind", s(format!("{:?}", kind))),
            ("coroutine", J::B(is_coroutine)),
            ("parent", opt_s(parent)),
            ("span", s(self.span(body.span))),
            ("arg_count", J::I(body.arg_count as i128)),
            ("ret_ty", J::I(ret_ty as i128)),
            ("locals", J::A(locals)),
            ("upvar_names", J::A(upvar_names)),
            ("blocks", J::A(blocks)),
        ])
    }
}

struct Cb;
impl rustc_driver::Callbacks for Cb {
    fn after_expansion<'tcx>(
        &mut self,
        _c: &interface::Compiler,
        tcx: TyCtxt<'tcx>,
    ) -> Compilation {
        let krate = tcx.crate_name(LOCAL_CRATE).to_string();
        let want = std::env::var("BV_CRATES").unwrap_or("bita,bitar".into());
        if !want.split(',').any(|c| c == krate) {
            return Compilation::Continue;
        }
        let mut cx = Cx { tcx, types: Vec::new(), ty_ix: HashMap::new(), prom_variants: HashMap::new(), prom_ranges: HashMap::new() };
        let mut owners: Vec<_> = tcx.hir_body_owners().collect();
        // nested bodies (closures, coroutines) first: their MIR must be read before the
        // parent's queries steal it.
        owners.sort_by_key(|d| std::cmp::Reverse(tcx.def_path(d.to_def_id()).data.len()));
        let mut bodies = Vec::new();
        let mut stolen = 0;
        for def in owners {
            let kind = tcx.def_kind(def.to_def_id());
            if !matches!(kind, DefKind::Fn | DefKind::AssocFn | DefKind::Closure) {
                continue;
            }
            let (steal, prom) = tcx.mir_promoted(def);
            if steal.is_stolen() {
                stolen += 1;
                continue;
            }
            cx.prom_variants.clear();
            cx.prom_ranges.clear();
            if !prom.is_stolen() {
                for (pi, pb) in prom.borrow().iter_enumerated() {
                    // `lo..=hi` / `lo..hi` of two integer literals
                    let env = ty::TypingEnv::post_analysis(tcx, def.to_def_id());
                    let cint = |o: &Operand<'tcx>| -> Option<i128> {
                        if let Operand::Constant(c) = o {
                            if c.const_.ty().is_integral() {
                                if let Some(si) = c.const_.try_eval_scalar_int(tcx, env) {
                                    return Some(si.to_bits(si.size()) as i128);
                                }
                            }
                        }
                        None
                    };
                    for blk in pb.basic_blocks.iter() {
                        if let Some(term) = &blk.terminator {
                            if let TerminatorKind::Call { func, args, .. } = &term.kind {
                                if let Operand::Constant(fc) = func {
                                    if let ty::FnDef(fd, _) = fc.const_.ty().kind() {
                                        let name = def_id_str(tcx, *fd);
                                        if name.ends_with("RangeInclusive::new") || name.contains("range::{impl") && name.ends_with("::new") {
                                            if args.len() == 2 {
                                                if let (Some(a), Some(b)) = (cint(&args[0].node), cint(&args[1].node)) {
                                                    cx.prom_ranges.insert(pi.as_usize(), (a, b, true));
                                                }
                                            }
                                        }
                                    }
                                }
                            }
                        }
                        for st in &blk.statements {
                            if let StatementKind::Assign(bx) = &st.kind {
                                if let Rvalue::Aggregate(kind, ops) = &bx.1 {
                                    if let AggregateKind::Adt(did, _, _, _, _) = &**kind {
                                        let an = def_id_str(tcx, *did);
                                        if an.ends_with("ops::range::RangeFrom") && ops.len() == 1 {
                                            let v: Vec<&Operand<'tcx>> = ops.iter().collect();
                                            if let Some(a) = cint(v[0]) {
                                                cx.prom_ranges.insert(pi.as_usize(), (a, i128::MAX, false));
                                            }
                                        }
                                        if an.ends_with("ops::range::Range") && ops.len() == 2 {
                                            let v: Vec<&Operand<'tcx>> = ops.iter().collect();
                                            if let (Some(a), Some(b)) = (cint(v[0]), cint(v[1])) {
                                                cx.prom_ranges.insert(pi.as_usize(), (a, b, false));
                                            }
                                        }
                                    }
                                }
                            }
                        }
                    }
                    let mut found: Vec<(String, String, usize)> = Vec::new();
                    let mut other = 0;
                    for blk in pb.basic_blocks.iter() {
                        for st in &blk.statements {
                            if let StatementKind::Assign(bx) = &st.kind {
                                match &bx.1 {
                                    Rvalue::Aggregate(kind, ops) => match &**kind {
                                        AggregateKind::Adt(did, vidx, _, _, _) if ops.is_empty() => {
                                            let adt = tcx.adt_def(*did);
                                            found.push((def_id_str(tcx, *did), adt.variant(*vidx).name.to_string(), vidx.as_usize()));
                                        }
                                        _ => other += 1,
                                    },
                                    Rvalue::Ref(..) => {}
                                    _ => other += 1,
                                }
                            }
                        }
                    }
                    if found.len() == 1 && other == 0 {
                        cx.prom_variants.insert(pi.as_usize(), found.pop().unwrap());
                    }
                }
            }
            let body = steal.borrow();
            bodies.push(cx.body(def.to_def_id(), &body));
        }
        // struct/enum field tables of the local crate (names by index)
        let mut adts = Vec::new();
        for id in tcx.hir_free_items() {
            let did = id.owner_id.to_def_id();
            if matches!(tcx.def_kind(did), DefKind::Struct | DefKind::Enum) {
                let adt = tcx.adt_def(did);
                let mut vs = Vec::new();
                for v in adt.variants() {
                    let mut fs = Vec::new();
                    for fd in &v.fields {
                        let fty = tcx.type_of(fd.did).instantiate_identity().skip_norm_wip();
                        let t = cx.ty(fty);
                        fs.push(J::O(vec![
                            ("n", s(fd.name.to_string())),
                            ("ty", J::I(t as i128)),
                            ("vis", s(format!("{:?}", fd.vis))),
                        ]));
                    }
                    vs.push(J::O(vec![("n", s(v.name.to_string())), ("fields", J::A(fs))]));
                }
                adts.push(J::O(vec![("id", s(def_id_str(tcx, did))), ("variants", J::A(vs))]));
            }
        }
        let types = std::mem::take(&mut cx.types);
        let root = J::O(vec![
            ("crate", s(krate.clone())),
            ("stolen", J::I(stolen)),
            ("bodies", J::A(bodies)),
            ("adts", J::A(adts)),
            ("types", J::A(types)),
        ]);
        let mut out = String::new();
        root.write(&mut out);
        let dir = std::env::var("BV_OUT").unwrap_or("/var/tmp/bv-facts".into());
        std::fs::create_dir_all(&dir).unwrap();
        // one write per process; cargo may run lib and bin of the same name in parallel
        let is_test = std::env::args().any(|a| a == "--test");
        let crate_type = std::env::args()
            .skip_while(|a| a != "--crate-type")
            .nth(1)
            .unwrap_or("unknown".into());
        let name = format!("{dir}/{krate}.{crate_type}{}.json", if is_test { ".test" } else { "" });
        std::fs::write(&name, out).unwrap();
        Compilation::Continue
    }
}

fn main() {
    let mut args: Vec<String> = std::env::args().collect();
    // RUSTC_WORKSPACE_WRAPPER: argv[1] is the real rustc
    args.remove(1);
    rustc_driver::run_compiler(&args, &mut Cb);
}
