//! Compile-fail witnesses for the "only verified chunks can be written" type-state of bitar
//! (properties C02, C04, C13). Every witness has a compiling twin that differs only in the
//! offending line, so a witness that fails for the wrong reason (bad path, bad signature)
//! is noticed. Run with `cargo +nightly test --doc --offline` (error codes are checked on nightly).

/// W1 — a `VerifiedChunk` cannot be forged outside bitar: its fields are private.
/// ```compile_fail,E0451
/// let c = bitar::Chunk::from(vec![1u8, 2, 3]);
/// let h = bitar::HashSum::from(&[0u8; 64][..]);
/// let _v = bitar::VerifiedChunk { chunk: c, hash_sum: h };
/// ```
/// ```
/// let c = bitar::Chunk::from(vec![1u8, 2, 3]);
/// let _v = bitar::VerifiedChunk::new(c);
/// ```
pub struct W1;

/// W2 — `CloneOutput::feed` only accepts a `&VerifiedChunk`.
/// ```compile_fail,E0308
/// async fn f(out: &mut bitar::CloneOutput<std::io::Cursor<Vec<u8>>>, c: bitar::Chunk) {
///     let _ = out.feed(&c).await;
/// }
/// ```
/// ```
/// async fn f(out: &mut bitar::CloneOutput<std::io::Cursor<Vec<u8>>>, c: bitar::Chunk) {
///     let _ = out.feed(&c.verify()).await;
/// }
/// ```
pub struct W2;

/// W3 — the wrapped output of a `CloneOutput` cannot be written to directly.
/// ```compile_fail,E0616
/// fn f(out: &mut bitar::CloneOutput<std::io::Cursor<Vec<u8>>>) {
///     let _w = &mut out.inner;
/// }
/// ```
/// ```
/// fn f(out: &mut bitar::CloneOutput<std::io::Cursor<Vec<u8>>>) {
///     let _n = out.len();
/// }
/// ```
pub struct W3;

/// W4 — the data of an unverified archive chunk is only reachable through `verify()`.
/// ```compile_fail,E0616
/// fn f(ac: bitar::ArchiveChunk) -> bitar::Chunk {
///     ac.chunk
/// }
/// ```
/// ```
/// fn f(ac: bitar::ArchiveChunk) -> Option<bitar::Chunk> {
///     ac.verify().ok().map(|v| v.into_parts().1)
/// }
/// ```
pub struct W4;

/// W5 — a fetched (compressed) archive chunk cannot be unwrapped without going through
/// `decompress()` and then `verify()`.
/// ```compile_fail,E0616
/// fn f(cac: bitar::CompressedArchiveChunk) -> bitar::CompressedChunk {
///     cac.chunk
/// }
/// ```
/// ```
/// fn f(cac: bitar::CompressedArchiveChunk) -> usize {
///     cac.len()
/// }
/// ```
pub struct W5;

/// W6 — the write primitive of `CloneOutput` is not callable from outside (only `feed` and
/// `reorder_in_place` are).
/// ```compile_fail,E0624
/// async fn f(out: &mut bitar::CloneOutput<std::io::Cursor<Vec<u8>>>, v: bitar::VerifiedChunk) {
///     let _ = out.write_offset(&[0], &v).await;
/// }
/// ```
/// ```
/// async fn f(out: &mut bitar::CloneOutput<std::io::Cursor<Vec<u8>>>, v: bitar::VerifiedChunk) {
///     let _ = out.feed(&v).await;
/// }
/// ```
pub struct W6;
