"""E4: untrusted-value checker.

Taint bits: V1 = value attacker-chosen, <=32-bit origin or an in-memory len(); V2 = value attacker-chosen, 64-bit;
C = cardinality (length) of a container attacker-chosen.  Field-based for the repository's own ADTs
(keys (adt, variant, field)), local-level for std wrappers and containers.  Sanitisation: a dominating branch on
a comparison of the same *value* (alias class or same source place), bounded-by-contract APIs, min with a clean bound.
"""
import collections
from .facts import succs, rv_operands, rv_places, callee_q, callee_def

V1, V2, C = 1, 2, 4
VANY = V1 | V2


def vlevel(x):
    return 2 if x & V2 else (1 if x & V1 else 0)


SOURCES = {
    'prost::message::Message::decode': V2 | C,
    'bitar::archive_reader::ArchiveReader::read_at': V2 | C,
    'bitar::archive_reader::ArchiveReader::read_chunks': V2 | C,
    'reqwest::async_impl::request::RequestBuilder::send': V2 | C,
    # what a peer announces about a body it may never send
    'reqwest::async_impl::response::Response::content_length': V2,
}
CLOSURE_RESULT_ADAPTERS = ('::map', '::filter_map', '::flat_map', '::and_then', '::then', '::map_while')
BOUNDED_RESULT = ('::binary_search', '::binary_search_by', '::binary_search_by_key', '::position', '::rposition', 'str::find', 'str::rfind')
GROWERS = ('::push', '::insert', '::extend', '::extend_from_slice', '::push_back', '::push_front', '::push_str', '::append', '::put', '::put_slice', '::entry')
CARDINALITY_READERS = ('::len', '::capacity', '::count', '::remaining', '::size_hint')
CMP = {'Lt', 'Le', 'Gt', 'Ge', 'Eq', 'Ne'}
SINK_ASSERT_ALWAYS = ('Overflow(Sub)', 'Overflow(Shl)', 'Overflow(Shr)', 'OverflowNeg', 'DivisionByZero',
                      'RemainderByZero', 'BoundsCheck')
SINK_ASSERT_WIDE = ('Overflow(Add)', 'Overflow(Mul)')
ALLOC = ('with_capacity', 'resize', 'reserve', 'from_elem', 'reserve_exact')
SINK_CALLS = {
    'core::ops::index::Index::index': [1], 'core::ops::index::IndexMut::index_mut': [1],
    'bytes::bytes_mut::BytesMut::split_to': [1], 'bytes::bytes::Bytes::split_to': [1],
    'bytes::bytes_mut::BytesMut::split_off': [1], 'bytes::bytes::Bytes::split_off': [1], 'bytes::bytes::Bytes::slice': [1],
    'bytes::bytes_mut::BytesMut::with_capacity': [0], 'alloc::vec::Vec::with_capacity': [0],
    'bytes::bytes_mut::BytesMut::resize': [1], 'alloc::vec::Vec::resize': [1],
    'bytes::bytes_mut::BytesMut::reserve': [1], 'alloc::vec::Vec::reserve': [1],
    'alloc::vec::from_elem': [1],
    'alloc::vec::Vec::remove': [1], 'alloc::vec::Vec::insert': [1], 'alloc::vec::Vec::swap_remove': [1],
    '[T]::split_at': [1], '[T]::windows': [1], '[T]::chunks': [1],
    # progress: a concurrency of 0 never polls the inner stream - the pipeline hangs
    'futures_util::stream::stream::StreamExt::buffered': [1], 'futures_util::stream::stream::StreamExt::buffer_unordered': [1],
}
ZERO_HAZARD_CALLS = ('buffered', 'buffer_unordered', 'windows', 'chunks')
ZERO_HAZARD_FIELDS = {
    ('bitar::chunker::config::FilterConfig', None, 'window_size'), ('bitar::chunker::config::FilterConfig', None, 'max_chunk_size'),
    ('bitar::chunker::config::FilterBits', None, '0'), ('bitar::chunker::config::Config', 'FixedSize', '0'),
    ('bitar::archive::Archive', None, 'chunk_hash_length'),
}
MUST_VALIDATE_FIELDS = {
    ('bitar::chunker::config::FilterConfig', None, 'window_size'), ('bitar::chunker::config::FilterConfig', None, 'min_chunk_size'),
    ('bitar::chunker::config::FilterConfig', None, 'max_chunk_size'), ('bitar::chunker::config::FilterBits', None, '0'),
    ('bitar::chunker::config::Config', 'FixedSize', '0'),
    # the recorded length of a hash sum indexes its fixed 64 byte array
    ('bitar::hashsum::HashSum', None, 'length'),
    # what a chunk is identified by: zero makes every chunk the same chunk
    ('bitar::archive::Archive', None, 'chunk_hash_length'),
}
SOURCE_ADT_PREFIX = 'bitar::chunk_dictionary::'


class Taint:
    def __init__(self, facts):
        self.f = facts
        self.TL = {}   # (body id, local) -> bits
        self.TF = {}   # (adt, variant, field) -> bits
        self.TU = {}   # (closure/coroutine body id, upvar idx) -> bits
        self.TR = {}   # body id -> bits
        self.changed = True
        self.san_cache = {}
        self._carry = {}
        self.zero_hazard = ZERO_HAZARD_FIELDS
        self.seed_source_adts()

    def up(self, table, key, bits):
        if bits and (table.get(key, 0) | bits) != table.get(key, 0):
            table[key] = table.get(key, 0) | bits
            self.changed = True

    # ------------------------------------------------------------ types
    def is_local_adt(self, ty):
        return ty.get('k') == 'adt' and ty.get('adt', '').startswith(('bita::', 'bitar::'))

    def is_enum(self, adt):
        a = self.f.adts.get(adt)
        return bool(a) and (len(a['variants']) != 1 or a['variants'][0]['n'] != adt.split('::')[-1])

    def narrow_ty(self, ty):
        return ty.get('k') in ('int', 'uint') and ty.get('bits', 64) <= 32

    def mask(self, b, ty, bits):
        """restrict taint bits to what a value of this type can carry"""
        if not bits:
            return 0
        k = ty.get('k')
        if k in ('bool', 'never', 'fndef', 'fnptr', 'closure', 'coroutine', 'coroutine_closure', 'float', 'char'):
            return 0
        if k in ('int', 'uint'):
            if not bits & VANY:
                return 0
            return V1 if ty.get('bits', 64) <= 32 else (bits & VANY)
        if self.is_local_adt(ty):
            return 0
        if k in ('ref', 'rawptr') and ty.get('args'):
            inner = b.ty(ty['args'][0])
            if self.is_local_adt(inner):
                return 0
            if inner.get('k') == 'param' and not self.bytes_like_param(b):
                return 0
        if k == 'param' and not self.bytes_like_param(b):
            return 0
        if k == 'adt' and not self.carries(b, ty):
            return 0
        return bits

    def bytes_like_param(self, b):
        """a generic value is followed only in the conversions of the byte-container types of the crate (`From<T: AsRef<[u8]>>`),
        where T stands for decoded bytes; elsewhere type parameters are readers / writers / chunkers"""
        return b.q.endswith(' as core::convert::From>::from') and b.id.startswith('bitar::hashsum::')

    def carries(self, b, ty, depth=0):
        """can a value of this (foreign) type contain integers / bytes / collections at all?"""
        key = (b.crate, ty.get('s'))
        if key in self._carry:
            return self._carry[key]
        k = ty.get('k')
        if k in ('int', 'uint', 'str', 'slice', 'array', 'alias', 'other', 'rawptr'):
            r = True
        elif k in ('bool', 'never', 'fndef', 'fnptr', 'float', 'char', 'param'):
            r = False
        elif k == 'dyn':
            r = True
        elif self.is_local_adt(ty):
            r = True         # iterators over / options of local ADTs keep cardinality
        elif depth > 5:
            r = True
        elif k in ('ref', 'tuple', 'adt', 'closure', 'coroutine'):
            args = [b.ty(i) for i in ty.get('args', [])]
            if k == 'adt' and ty.get('adt', '').startswith(('bytes::', 'alloc::string::', 'std::ffi::', 'std::path::', 'core::str::')):
                r = True
            elif k in ('closure', 'coroutine'):
                r = True
            else:
                r = any(self.carries(b, a, depth + 1) for a in args)
        else:
            r = True
        self._carry[key] = r
        return r

    def fkeys(self, pl):
        keys = []
        variant = None
        for p in pl['p']:
            if p['k'] == 'downcast':
                variant = p.get('n')
            elif p['k'] == 'field':
                if p.get('adt') and p.get('n') is not None and p['adt'].startswith(('bita::', 'bitar::')):
                    keys.append((p['adt'], variant if self.is_enum(p['adt']) else None, p['n']))
                variant = None
        return keys

    def seed_source_adts(self):
        for adt, a in self.f.adts.items():
            if adt.startswith(SOURCE_ADT_PREFIX) and len(a['variants']) == 1:
                for fd in a['variants'][0]['fields']:
                    ty = self.f.types[('bitar', fd['ty'])]
                    if ty.get('k') == 'bool':
                        continue
                    if ty.get('k') in ('int', 'uint'):
                        bits = V1 if self.narrow_ty(ty) else V2
                    else:
                        bits = V2 | C
                        # containers of narrow integers
                        if 'u32' in ty.get('s', '') or 'i32' in ty.get('s', ''):
                            bits = V1 | C
                    self.TF[(adt, None, fd['n'])] = bits

    # ------------------------------------------------------------ reading
    def place_level(self, b, pl):
        l = pl['l']
        bits = self.TL.get((b.id, l), 0)
        if l == 1 and b.raw['kind'] == 'Closure':
            # closure / coroutine environment: only the captured field's own taint counts
            bits = 0
            for p in pl['p']:
                if p['k'] == 'field':
                    bits = self.TU.get((b.id, p['i']), 0)
                    break
        keys = self.fkeys(pl)
        if keys:
            bits = self.TF.get(keys[-1], 0)
        fty = None
        last_field = None
        for p in pl['p']:
            if p['k'] == 'field':
                fty = b.ty(p['ty'])
                last_field = p
        if fty is None and not pl['p']:
            return self.mask(b, b.lty(l), bits)
        if fty is not None and pl['p'][-1]['k'] in ('field',):
            return self.mask(b, fty, bits)
        if fty is not None and pl['p'][-1]['k'] == 'deref' and len(pl['p']) >= 2 and pl['p'][-2]['k'] == 'field':
            inner = fty
            if inner.get('k') == 'ref':
                inner = b.ty(inner['args'][0])
            return self.mask(b, inner, bits)
        return bits

    def op_type(self, b, op):
        pl = op['pl']
        ty = b.lty(pl['l'])
        for p in pl['p']:
            if p['k'] == 'field':
                ty = b.ty(p['ty'])
            elif p['k'] == 'deref' and ty.get('k') in ('ref', 'rawptr') and ty.get('args'):
                ty = b.ty(ty['args'][0])
            elif p['k'] in ('index', 'constindex') and ty.get('args'):
                ty = b.ty(ty['args'][0])
        return ty

    def op_level(self, b, op):
        if op['k'] in ('copy', 'move'):
            return self.place_level(b, op['pl'])
        return 0

    # ------------------------------------------------------------ sanitisation
    def vkey(self, b, op):
        if op['k'] not in ('copy', 'move'):
            return None
        find = b.alias_classes()
        pl = op['pl']
        if pl['p']:
            base = b.base_of_place(pl)
            return ('P', base[0], tuple(x[1] for x in base[1]), tuple(p['k'] for p in pl['p'] if p['k'] in ('index', 'constindex')))
        l = find(pl['l'])
        for cand in (pl['l'], l):
            ds = b.defs().get(cand, [])
            if len(ds) == 1 and ds[0][0] == 'assign':
                rv = ds[0][1]['rv']
                if rv['k'] in ('use', 'cast') and rv['op']['k'] in ('copy', 'move') and rv['op']['pl']['p']:
                    return self.vkey(b, rv['op'])
        return ('L', l)

    def cmp_blocks(self, b):
        """block -> [(value key compared, other operand | None, zero: compared with the constant 0/1)] for blocks that
        branch on a comparison (or match on the integer itself)"""
        if b.id in self.san_cache:
            return self.san_cache[b.id]
        cmp_of = {}
        for bi in b.live:
            for st in b.blocks[bi]['stmts']:
                if st['k'] == 'assign' and not st['pl']['p']:
                    rv = st['rv']
                    if rv['k'] == 'binop' and rv['op'] in CMP:
                        ents = []
                        for x, y in ((rv['a'], rv['b']), (rv['b'], rv['a'])):
                            k = self.vkey(b, x)
                            if k:
                                zero = y['k'] == 'const' and y.get('int') in (0, 1)
                                ents.append((k, y, zero))
                            # `x.len()` of something reached through a shared reference is the same number the next time it is asked for
                            lk_ = self.len_key(b, x) if x['k'] in ('copy', 'move') else None
                            if lk_ and not lk_[2]:
                                rty = b.lty(lk_[1])
                                if rty.get('k') == 'ref' and not rty.get('mut'):
                                    ents.append((lk_, y, y['k'] == 'const' and y.get('int') in (0, 1)))
                        cmp_of[st['pl']['l']] = ents
                    elif rv['k'] == 'unop' and rv['op'] == 'Not' and rv['a']['k'] in ('copy', 'move') and rv['a']['pl']['l'] in cmp_of:
                        cmp_of[st['pl']['l']] = cmp_of[rv['a']['pl']['l']]
                    elif rv['k'] == 'use' and rv['op']['k'] in ('copy', 'move') and not rv['op']['pl']['p'] and rv['op']['pl']['l'] in cmp_of:
                        cmp_of[st['pl']['l']] = cmp_of[rv['op']['pl']['l']]
        res = {}
        for bi in b.live:
            t = b.blocks[bi]['term']
            if t['k'] == 'switch' and t['op']['k'] in ('copy', 'move'):
                l = t['op']['pl']['l']
                if l in cmp_of and not t['op']['pl']['p']:
                    res.setdefault(bi, []).extend(cmp_of[l])
                elif b.lty(l).get('k') in ('int', 'uint') or t['op']['pl']['p']:
                    k = self.vkey(b, t['op'])
                    if k:
                        res.setdefault(bi, []).append((k, None, 0 in t['vals'] or 1 in t['vals']))
            if t['k'] == 'call' and 'q' in t['callee'] and t['args'] and not t['dest']['p'] and \
                    t['callee']['q'] in ('core::convert::TryFrom::try_from', 'core::convert::TryInto::try_into'):
                # `match T::try_from(x) { Ok(..) => .., Err(..) => .. }`: the dispatch on the result is a range check of x
                k = self.vkey(b, t['args'][0])
                if k:
                    d = t['dest']['l']
                    holders = {d}
                    for bj in b.live:
                        for st in b.blocks[bj]['stmts']:
                            if st['k'] == 'assign' and not st['pl']['p'] and st['rv']['k'] == 'discr' and not st['rv']['pl']['p'] \
                                    and st['rv']['pl']['l'] in holders:
                                holders.add(st['pl']['l'])
                        tj = b.blocks[bj]['term']
                        if tj['k'] == 'switch' and tj['op']['k'] in ('copy', 'move') and not tj['op']['pl']['p'] \
                                and tj['op']['pl']['l'] in holders and tj['op']['pl']['l'] != d:
                            res.setdefault(bj, []).append((k, None, False))
                        # `if T::try_from(x).is_err() { refuse }`
                        if tj['k'] == 'call' and 'q' in tj['callee'] and callee_q(tj).endswith(('Result::is_err', 'Result::is_ok')) and tj['args'] \
                                and not tj['dest']['p']:
                            ab = b.base_of(tj['args'][0])
                            if ab and ab[0] == d and not ab[1]:
                                self._bool_dispatches(b, tj['dest']['l'], res, (k, None, False))
            if t['k'] == 'call' and 'q' in t['callee'] and len(t['args']) == 2 and not t['dest']['p'] and \
                    t['callee']['q'] in ('core::cmp::Ord::cmp', 'core::cmp::PartialOrd::partial_cmp'):
                # `match a.cmp(&b) { Less => .., Equal => .., Greater => .. }` is a comparison of a with b
                ents = []
                ops2 = []
                for a in t['args']:
                    base = b.base_of(a)
                    ops2.append({'k': 'copy', 'pl': {'l': base[0], 'p': []}} if base and not base[1] else None)
                for x, y in ((ops2[0], ops2[1]), (ops2[1], ops2[0])):
                    if x is not None:
                        k = self.vkey(b, x)
                        if k:
                            ents.append((k, y, False))
                if ents:
                    d = t['dest']['l']
                    holders = {d}
                    for bj in b.live:
                        for st in b.blocks[bj]['stmts']:
                            if st['k'] == 'assign' and not st['pl']['p'] and st['rv']['k'] in ('discr', 'use', 'cast') and \
                                    (st['rv'].get('pl') or st['rv'].get('op', {}).get('pl') or {}).get('l') in holders and \
                                    not (st['rv'].get('pl') or st['rv'].get('op', {}).get('pl') or {'p': [1]})['p']:
                                holders.add(st['pl']['l'])
                        tj = b.blocks[bj]['term']
                        if tj['k'] == 'switch' and tj['op']['k'] in ('copy', 'move') and not tj['op']['pl']['p'] and tj['op']['pl']['l'] in holders:
                            res.setdefault(bj, []).extend(ents)
            if t['k'] == 'call' and 'q' in t['callee'] and len(t['args']) == 2 and not t['dest']['p'] and \
                    callee_q(t).split('::')[-1] == 'contains' and 'ops::range::Range' in callee_q(t):
                # `(lo..=hi).contains(&x)` is the comparison of x with both ends
                base = b.base_of(t['args'][1])
                if base:
                    k = ('P', base[0], tuple(x[1] for x in base[1]), ()) if base[1] else self.vkey(b, {'k': 'copy', 'pl': {'l': base[0], 'p': []}})
                    lo = self._range_low(b, t['args'][0])
                    self._bool_dispatches(b, t['dest']['l'], res, (k, None, lo is not None and lo >= 1))
                    # the ends of the range are compared with x just the same (`(1..=max).contains(&window)` bounds max from below)
                    for e_ in self._range_ends(b, t['args'][0]):
                        ek = self.vkey(b, e_)
                        if ek:
                            self._bool_dispatches(b, t['dest']['l'], res, (ek, None, lo is not None and lo >= 1))
            if t['k'] == 'call' and 'q' in t['callee'] and len(t['args']) == 2 and not t['dest']['p'] and \
                    callee_q(t).split('::')[-1] in ('get', 'get_mut') and (callee_q(t).startswith('[T]::') or 'slice' in callee_q(t) or 'Vec' in callee_q(t)) and \
                    b.lty(t['dest']['l']).get('adt') == 'core::option::Option':
                # `match list.get(i) { Some(..) => .., None => .. }`: the dispatch on the result is a bounds check of i
                k = self.vkey(b, t['args'][1])
                if k:
                    d = t['dest']['l']
                    holders = {d}
                    for bj in b.live:
                        for st in b.blocks[bj]['stmts']:
                            if st['k'] == 'assign' and not st['pl']['p'] and st['rv']['k'] == 'discr' and not st['rv']['pl']['p'] \
                                    and st['rv']['pl']['l'] in holders:
                                holders.add(st['pl']['l'])
                        tj = b.blocks[bj]['term']
                        if tj['k'] == 'switch' and tj['op']['k'] in ('copy', 'move') and not tj['op']['pl']['p'] \
                                and tj['op']['pl']['l'] in holders and tj['op']['pl']['l'] != d:
                            res.setdefault(bj, []).append((k, None, False))
            if t['k'] == 'call' and 'q' in t['callee'] and callee_q(t).endswith(('::is_empty',)) and t['args']:
                nb = t['t']
                if nb is not None and b.blocks[nb]['term']['k'] == 'switch':
                    base = b.base_of(t['args'][0])
                    res.setdefault(nb, []).append((('LEN', base[0], tuple(x[1] for x in base[1])), None, True))
        self.san_cache[b.id] = res
        return res

    def _range_low(self, b, op):
        """lower end of a range value built from constants (None if unknown)"""
        base = b.base_of(op)
        if not base:
            return None
        for d in b.defs().get(base[0], []):
            if d[0] == 'call' and 'q' in d[1]['callee'] and callee_q(d[1]).endswith('RangeInclusive::new') and d[1]['args'] and \
                    d[1]['args'][0]['k'] == 'const':
                return d[1]['args'][0].get('int')
            if d[0] == 'assign' and d[1]['rv']['k'] == 'use' and d[1]['rv']['op']['k'] == 'const' and d[1]['rv']['op'].get('prange'):
                return d[1]['rv']['op']['prange'][0]        # a range of two literals, promoted to a constant (`(1..=64).contains(&x)`)
            if d[0] == 'assign' and d[1]['rv']['k'] == 'agg' and 'Range' in (d[1]['rv'].get('adt') or '') and d[1]['rv']['ops'] and \
                    d[1]['rv']['ops'][0]['k'] == 'const':
                return d[1]['rv']['ops'][0].get('int')
        return None

    def _range_ends(self, b, op):
        base = b.base_of(op)
        out = []
        if not base:
            return out
        for d in b.defs().get(base[0], []):
            ops = []
            if d[0] == 'call' and 'q' in d[1]['callee'] and callee_q(d[1]).endswith('RangeInclusive::new'):
                ops = d[1]['args']
            elif d[0] == 'assign' and d[1]['rv']['k'] == 'agg' and 'Range' in (d[1]['rv'].get('adt') or ''):
                ops = d[1]['rv']['ops']
            out += [o for o in ops if o['k'] in ('copy', 'move')]
        return out

    def _bool_dispatches(self, b, l, res, ent):
        """register a comparison entry at every switch on (a negation / copy of) the boolean in local l"""
        holders = {l}
        grew = True
        while grew:
            grew = False
            for bj in b.live:
                for st in b.blocks[bj]['stmts']:
                    if st['k'] == 'assign' and not st['pl']['p'] and st['pl']['l'] not in holders:
                        rv = st['rv']
                        src = rv.get('a') if rv['k'] == 'unop' else rv.get('op') if rv['k'] == 'use' else None
                        if isinstance(src, dict) and src.get('k') in ('copy', 'move') and not src['pl']['p'] and src['pl']['l'] in holders:
                            holders.add(st['pl']['l'])
                            grew = True
        for bj in b.live:
            tj = b.blocks[bj]['term']
            if tj['k'] == 'switch' and tj['op']['k'] in ('copy', 'move') and not tj['op']['pl']['p'] and tj['op']['pl']['l'] in holders:
                res.setdefault(bj, []).append(ent)

    def bound_ok(self, b, other, block, depth):
        """is the other side of a comparison a usable bound: a constant, an untainted value, a length, or a value
        that is itself range-checked at this point"""
        if other is None or other['k'] == 'const':
            return True
        bits = self.op_level(b, other)
        if not bits & VANY:
            return True
        if self.len_key(b, other) is not None:
            return True
        if depth >= 3:
            return False
        return self.op_sanitised(b, other, block, depth=depth + 1) is not None

    SHRINKERS = ('remove', 'swap_remove', 'pop', 'truncate', 'retain', 'retain_mut', 'clear', 'drain', 'dedup', 'dedup_by', 'dedup_by_key', 'split_off',
                 'iter', 'iter_mut', 'len', 'is_empty', 'get', 'get_mut', 'first', 'last', 'contains', 'as_slice', 'deref', 'deref_mut', 'index', 'index_mut',
                 'binary_search', 'sort', 'sort_unstable', 'reverse', 'as_mut_slice', 'position')

    def _len_call(self, b, op, depth=0):
        """the `len()` call an operand is (a copy of), or None"""
        if op['k'] not in ('copy', 'move') or op['pl']['p'] or depth > 5:
            return None
        ds = b.defs().get(op['pl']['l'], [])
        if len(ds) != 1:
            return None
        d = ds[0]
        if d[0] == 'call' and 'q' in d[1]['callee'] and callee_q(d[1]).endswith('::len') and d[1]['args']:
            return d
        if d[0] == 'assign' and d[1]['rv']['k'] in ('use', 'cast') and d[1]['rv']['op']['k'] in ('copy', 'move'):
            return self._len_call(b, d[1]['rv']['op'], depth + 1)
        return None

    def shrinking_lens(self, b, aops):
        """`earlier_len - later_len` of one list: fine when, in this function, the list is only ever handed by `&mut` to methods
        that cannot make it longer and the minuend's len() comes first on every path"""
        ca, cb = self._len_call(b, aops[0]), self._len_call(b, aops[1])
        if ca is None or cb is None:
            return False
        ba, bb = b.base_of(ca[1]['args'][0]), b.base_of(cb[1]['args'][0])
        if not ba or not bb or ba[0] != bb[0] or [x[1] for x in ba[1]] != [x[1] for x in bb[1]]:
            return False
        if ca[2] not in b.dominators().get(cb[2], ()) and ca[2] != cb[2]:
            return False
        root, path = ba[0], [x[1] for x in ba[1]]
        for bi in b.live:
            for st in b.blocks[bi]['stmts']:
                if st['k'] == 'assign' and st['pl']['p']:
                    pb = b.base_of_place(st['pl'])
                    if pb and pb[0] == root and [x[1] for x in pb[1]][:len(path)] == path and len(pb[1]) <= len(path):
                        return False        # the list itself is overwritten
        for bi, t in b.calls():
            for a in t['args']:
                if a['k'] not in ('copy', 'move'):
                    continue
                ty = b.lty(a['pl']['l'])
                if not (ty.get('k') == 'ref' and ty.get('mut')):
                    continue
                ab = b.base_of(a)
                if ab and ab[0] == root and [x[1] for x in ab[1]][:len(path)] == path:
                    name = callee_q(t).split('::')[-1] if 'q' in t['callee'] else '?'
                    if name not in self.SHRINKERS:
                        return False
        return True

    def capture_guarded(self, b, op):
        """inside a closure handed to `Option::map / and_then / filter / ..` on the result of `list.get(i)`, the captured i is in
        range: the closure only runs for `Some`"""
        if b.raw['kind'] != 'Closure' or b.raw.get('coroutine') or op['k'] not in ('copy', 'move'):
            return False
        base = b.base_of(op)
        if not base or base[0] != 1 or not base[1] or not isinstance(base[1][0][1], int):
            return False
        n = base[1][0][1]
        par = self.f.bodies.get(b.raw.get('parent') or '')
        if par is None:
            return False
        for bi in par.live:
            for st in par.blocks[bi]['stmts']:
                if not (st['k'] == 'assign' and st['rv']['k'] == 'agg' and st['rv'].get('ak') == 'closure' and st['rv'].get('body') == b.id
                        and n < len(st['rv']['ops']) and not st['pl']['p']):
                    continue
                cap = st['rv']['ops'][n]
                find = par.alias_classes()
                cl = find(st['pl']['l'])
                for cbi, ct in par.calls():
                    if 'q' not in ct['callee'] or not callee_q(ct).startswith('core::option::Option::') or \
                            callee_q(ct).split('::')[-1] not in ('map', 'and_then', 'filter', 'map_or', 'is_some_and', 'then', 'inspect'):
                        continue
                    if not any(a['k'] in ('copy', 'move') and not a['pl']['p'] and find(a['pl']['l']) == cl for a in ct['args'][1:]):
                        continue
                    r = ct['args'][0]
                    if r['k'] not in ('copy', 'move') or r['pl']['p']:
                        continue
                    for d in par.defs().get(r['pl']['l'], []):
                        if d[0] == 'call' and 'q' in d[1]['callee'] and callee_q(d[1]).split('::')[-1] in ('get', 'get_mut') and len(d[1]['args']) == 2 and \
                                (callee_q(d[1]).startswith('[T]::') or 'slice' in callee_q(d[1]) or 'Vec' in callee_q(d[1])):
                            ki = self.vkey(par, d[1]['args'][1])
                            cb = par.base_of(cap) if cap['k'] in ('copy', 'move') else None
                            kc = self.vkey(par, {'k': 'copy', 'pl': {'l': cb[0], 'p': []}}) if cb and not cb[1] else None
                            if ki is not None and ki == kc:
                                return True
        return False

    def op_sanitised(self, b, op, block, zero=False, depth=0):
        if not zero and self.capture_guarded(b, op):
            return -1
        key = self.vkey(b, op)
        if key is None:
            return None
        dom = b.dominators().get(block, set())
        keys = {key}
        lk = self.len_key(b, op)
        if lk:
            keys.add(lk)
        for cb, ents in self.cmp_blocks(b).items():
            if cb in dom and cb != block:
                for (k, other, z) in ents:
                    if k in keys and (z or not zero):
                        if other is not None and other['k'] in ('copy', 'move') and self.vkey(b, other) == key:
                            continue
                        if self.bound_ok(b, other, block, depth):
                            return cb
        if not zero and op['k'] in ('copy', 'move') and not op['pl']['p'] and self.bounded_origin(b, op['pl']['l']):
            return -1
        # the same slice expression computed twice (`&self.chunks[self.chunk_index..]` in a caller and again in an extracted
        # helper): an emptiness / length test on the one holds for the other while nothing it reads is stored to in between
        if lk and not lk[2]:
            mine = self.slice_canon(b, lk[1])
            if mine is not None:
                for cb, ents in self.cmp_blocks(b).items():
                    if cb in dom and cb != block:
                        for (k, other, z) in ents:
                            if isinstance(k, tuple) and k[0] == 'LEN' and not k[2] and k[1] != lk[1] and (z or not zero):
                                theirs = self.slice_canon(b, k[1])
                                if theirs is not None and theirs[0] == mine[0] and not self._stored_between(b, cb, block, mine[1] | theirs[1]):
                                    return cb
        # a value chosen on two paths (`let n = if len > MAX { MAX } else { len }`): range-checked when every alternative is a constant
        # or is itself range-checked where it is assigned (a clamp written as if / else)
        if not zero and depth < 2 and op['k'] in ('copy', 'move') and not op['pl']['p']:
            ds = b.defs().get(op['pl']['l'], [])
            hops = 0
            while len(ds) == 1 and ds[0][0] == 'assign' and ds[0][1]['rv']['k'] in ('use', 'cast') and ds[0][1]['rv']['op']['k'] in ('copy', 'move') and \
                    not ds[0][1]['rv']['op']['pl']['p'] and hops < 4:
                ds = b.defs().get(ds[0][1]['rv']['op']['pl']['l'], [])     # a temporary copy of the variable
                hops += 1
            def _plain(d_):
                return (d_[0] == 'assign' and not d_[1]['pl']['p'] and d_[1]['rv']['k'] in ('use', 'cast')) or \
                    (d_[0] == 'call' and 'q' in d_[1]['callee'] and callee_q(d_[1]).endswith('::len') and d_[1]['args'])
            if 2 <= len(ds) <= 4 and all(_plain(d_) for d_ in ds):
                ok_all = True
                for d_ in ds:
                    if d_[0] == 'call':
                        # `n = x.len()` assigned on one of the paths: checked if that length was compared on the way there
                        base_ = b.base_of(d_[1]['args'][0])
                        lk2 = ('LEN', base_[0], tuple(x[1] for x in base_[1])) if base_ else None
                        dom2 = b.dominators().get(d_[2], set())
                        if not (lk2 and any(cb in dom2 and any(k == lk2 and self.bound_ok(b, other, d_[2], depth + 1) for (k, other, z) in ents)
                                            for cb, ents in self.cmp_blocks(b).items())):
                            ok_all = False
                            break
                        continue
                    src = d_[1]['rv']['op']
                    if src['k'] == 'const':
                        continue
                    if not (self.op_level(b, src) & VANY):
                        continue
                    if self.op_sanitised(b, src, d_[2], zero=False, depth=depth + 1) is None:
                        ok_all = False
                        break
                if ok_all:
                    return -1
        return None

    def len_key(self, b, op, depth=0):
        """if the operand is (a cast of) X.len(), the key ('LEN', base of X) so that an is_empty(X) guard matches"""
        if op['k'] not in ('copy', 'move') or op['pl']['p'] or depth > 5:
            return None
        ds = b.defs().get(op['pl']['l'], [])
        if len(ds) != 1:
            return None
        d = ds[0]
        if d[0] == 'call' and 'q' in d[1]['callee'] and callee_q(d[1]).endswith('::len') and d[1]['args']:
            base = b.base_of(d[1]['args'][0])
            # look through accessor calls returning a reference to a field: len(accessor(x)) ~ keyed by accessor + x
            return ('LEN', base[0], tuple(x[1] for x in base[1]))
        if d[0] == 'assign' and d[1]['rv']['k'] in ('use', 'cast') and d[1]['rv']['op']['k'] in ('copy', 'move'):
            return self.len_key(b, d[1]['rv']['op'], depth + 1)
        if d[0] == 'assign' and d[1]['rv']['k'] == 'unop' and d[1]['rv']['op'] == 'PtrMetadata' and d[1]['rv']['a']['k'] in ('copy', 'move'):
            base = b.base_of(d[1]['rv']['a'])       # the length of a slice as the bounds check reads it
            return ('LEN', base[0], tuple(x[1] for x in base[1]))
        return None

    def slice_canon(self, b, l):
        """a slice value that is `recv[range]` of a place: (receiver place, description of the range bounds, fields read) - two
        slices with the same canon are the same slice as long as none of those fields is stored to in between"""
        ds = b.defs().get(l, [])
        if len(ds) != 1 or ds[0][0] != 'call' or 'q' not in ds[0][1]['callee'] or ds[0][1]['callee']['q'] != 'core::ops::index::Index::index' \
                or len(ds[0][1]['args']) != 2:
            return None
        t = ds[0][1]
        rb = b.base_of(t['args'][0])
        if not rb or t['args'][1]['k'] not in ('copy', 'move'):
            return None
        rl = t['args'][1]['pl']['l']
        rds = b.defs().get(rl, [])
        if len(rds) != 1 or rds[0][0] != 'assign' or rds[0][1]['rv']['k'] != 'agg' or 'Range' not in (rds[0][1]['rv'].get('adt') or ''):
            return None
        bounds = tuple(self.describe(b, o) for o in rds[0][1]['rv']['ops'])
        fields = set(x[1] for x in rb[1] if isinstance(x[1], str))
        for o in rds[0][1]['rv']['ops']:
            if o['k'] in ('copy', 'move'):
                ob = b.base_of(o)
                fields |= set(x[1] for x in (ob[1] if ob else []) if isinstance(x[1], str))
                # follow one copy: `_t = copy self.chunk_index`
                for d2 in b.defs().get(o['pl']['l'], []) if not o['pl']['p'] else []:
                    if d2[0] == 'assign' and d2[1]['rv']['k'] == 'use' and d2[1]['rv']['op']['k'] in ('copy', 'move'):
                        ob2 = b.base_of(d2[1]['rv']['op'])
                        fields |= set(x[1] for x in (ob2[1] if ob2 else []) if isinstance(x[1], str))
        return (self.local_desc(b, rb[0]), tuple(x[1] for x in rb[1]), rds[0][1]['rv'].get('adt'), bounds), frozenset(fields)

    def _stored_between(self, b, src_block, dst_block, fields):
        """may one of the named fields be stored to on a path from src_block to dst_block?"""
        stores = {bi for bi in b.live for st in b.blocks[bi]['stmts']
                  if st['k'] == 'assign' and st['pl']['p'] and any(p.get('n') in fields for p in st['pl']['p'] if p['k'] == 'field')}
        stores |= {bi for bi, t in b.calls() for a in t['args'] if a['k'] in ('copy', 'move') and b.lty(a['pl']['l']).get('k') == 'ref' and b.lty(a['pl']['l']).get('mut')
                   and any(x[1] in fields for x in ((b.base_of(a) or (None, []))[1]))}
        if not stores:
            return False

        def reach(start):
            seen, w = set(), [start]
            while w:
                x = w.pop()
                if x in seen or b.blocks[x].get('cleanup'):
                    continue
                seen.add(x)
                w.extend(succs(b.blocks[x]['term']))
            return seen
        from_src = reach(src_block)
        return any(sb in from_src and dst_block in reach(sb) - ({sb} if sb != dst_block else set()) for sb in stores)

    def bounded_origin(self, b, l, depth=0):
        ds = b.defs().get(l, [])
        if len(ds) != 1 or depth > 6:
            return False
        d = ds[0]
        if d[0] == 'call' and 'q' in d[1]['callee']:
            q = callee_q(d[1])
            if q.endswith(BOUNDED_RESULT):
                return True
            if q.endswith('::min') and len(d[1]['args']) == 2:
                return any(self.op_level(b, a) & VANY == 0 for a in d[1]['args'])
            return False
        if d[0] == 'assign':
            rv = d[1]['rv']
            if rv['k'] in ('use', 'cast') and rv['op']['k'] in ('copy', 'move'):
                return self.bounded_origin(b, rv['op']['pl']['l'], depth + 1)
        return False

    # ------------------------------------------------------------ propagation
    def from_impls(self, adt):
        if not hasattr(self, '_from'):
            self._from = collections.defaultdict(list)
            for g in self.f.bodies.values():
                if g.q.startswith('<') and ' as core::convert::From>::from' in g.q:
                    self._from[g.q[1:g.q.index(' as ')]].append(g)
        return self._from.get(adt, [])

    def impls_of(self, trait_method_q):
        if not hasattr(self, '_impls'):
            self._impls = collections.defaultdict(list)
            for g in self.f.bodies.values():
                if g.q.startswith('<') and ' as ' in g.q:
                    tr = g.q[g.q.index(' as ') + 4:].replace('>::', '::', 1)
                    self._impls[tr].append(g)
        return self._impls.get(trait_method_q, [])

    def run(self, max_rounds=40):
        rounds = 0
        while self.changed and rounds < max_rounds:
            self.changed = False
            rounds += 1
            for b in self.f.bodies.values():
                self.body_pass(b)
        return rounds

    def store(self, b, pl, bits, block, src_op=None):
        if not bits:
            return
        san = self.op_sanitised(b, src_op, block) if src_op is not None else None
        l = pl['l']
        named = self.fkeys(pl)
        if named:
            if san is None:
                self.up(self.TF, named[-1], bits)
            return
        bits = self.mask(b, b.lty(l), bits) if not pl['p'] else bits
        if not bits:
            return
        if l == 0 and not pl['p']:
            if san is None:
                self.up(self.TR, b.id, bits)
            self.up(self.TL, (b.id, l), bits)
        else:
            base = b.base_of_place(pl)
            if base[0] == 1 and b.raw['kind'] == 'Closure':
                if base[1]:
                    # write through a capture: visible to later reads of that captured field
                    self.up(self.TU, (b.id, base[1][0][1]), bits)
                return
            self.up(self.TL, (b.id, l), bits)
            if base[0] != l:
                self.up(self.TL, (b.id, base[0]), bits)

    def body_pass(self, b):
        for bi in b.live:
            blk = b.blocks[bi]
            for st in blk['stmts']:
                if st['k'] != 'assign':
                    continue
                rv = st['rv']
                if rv['k'] == 'agg':
                    if rv['ak'] == 'adt' and rv['adt'].startswith(('bita::', 'bitar::')):
                        var = rv['vname'] if self.is_enum(rv['adt']) else None
                        for name, o in zip(rv['fields'], rv['ops']):
                            bits = self.op_level(b, o)
                            if bits and self.op_sanitised(b, o, bi, zero=(rv['adt'], var, name) in self.zero_hazard) is None:
                                self.up(self.TF, (rv['adt'], var, name), bits)
                        continue
                    if rv['ak'] in ('closure', 'coroutine', 'coroutine_closure'):
                        for i, o in enumerate(rv['ops']):
                            self.up(self.TU, (rv['body'], i), self.op_level(b, o))
                        continue
                    if rv['ak'] == 'adt' and rv['adt'] == 'core::result::Result' and rv['vname'] == 'Err':
                        continue
                    bits = 0
                    for o in rv['ops']:
                        l1 = self.op_level(b, o)
                        if l1 and self.op_sanitised(b, o, bi) is None:
                            bits |= l1
                    self.store(b, st['pl'], bits, bi)
                    continue
                bits = 0
                src = None
                for o in rv_operands(rv):
                    l1 = self.op_level(b, o)
                    if l1:
                        bits |= l1
                        src = o
                for p in rv_places(rv):
                    bits |= self.place_level(b, p)
                if rv['k'] == 'cast' and bits and rv['op']['k'] in ('copy', 'move') and self.narrow_ty(self.op_type(b, rv['op'])):
                    bits = V1
                if rv['k'] == 'binop' and rv['op'] in CMP:
                    continue
                if rv['k'] == 'binop' and rv['op'] in ('Rem',) :
                    # x % n is bounded by n
                    bits = self.op_level(b, rv['b'])
                self.store(b, st['pl'], bits, bi, src if rv['k'] == 'use' else None)
            t = blk['term']
            if t['k'] == 'call':
                self.call(b, bi, t)

    def call(self, b, bi, t):
        f = self.f
        c = t['callee']
        args = t['args']
        lv = [self.op_level(b, a) for a in args]
        if 'q' not in c:
            self.store(b, t['dest'], _or(lv), bi)
            return
        q = callee_q(t)
        gq = c['q']
        d = callee_def(t)
        closure_args = []
        for i, a in enumerate(args):
            if a['k'] in ('copy', 'move') and not a['pl']['p']:
                ty = b.lty(a['pl']['l'])
                if ty.get('k') == 'closure' and ty.get('body') in f.bodies:
                    closure_args.append((i, ty['body']))
        cidx = [x for x, _ in closure_args]
        others = _or([l for i, l in enumerate(lv) if i not in cidx])
        for _, cb in closure_args:
            cbody = f.bodies[cb]
            for j in range(2, cbody.arg_count + 1):
                self.up(self.TL, (cb, j), self.mask(cbody, cbody.lty(j), others) if cbody.lty(j).get('k') in ('int', 'uint', 'bool') else others)
        res = 0
        if q in SOURCES or gq in SOURCES:
            res = SOURCES.get(q, SOURCES.get(gq))
            for g in self.impls_of(gq):
                self.pass_args(b, bi, g, args, lv)
        elif d in f.bodies:
            g = f.bodies[d]
            self.pass_args(b, bi, g, args, lv)
            res = self.TR.get(g.id, 0)
        elif self.impls_of(gq) and not (c.get('rdef') and c.get('rdef') != c.get('def') and c['rdef'] not in f.bodies):
            # (a trait method call on a generic / dyn receiver: every implementation in the crates; a call resolved to a foreign
            # implementation - `<String as Clone>::clone` - is an ordinary foreign call)
            for g in self.impls_of(gq):
                self.pass_args(b, bi, g, args, lv)
                res |= self.TR.get(g.id, 0)
        elif gq in ('core::convert::Into::into', 'core::convert::From::from') and not t['dest']['p'] and \
                b.lty(t['dest']['l']).get('adt') in f.adts and self.from_impls(b.lty(t['dest']['l'])['adt']):
            # `x.into()` into a crate-local type runs that type's own From impl
            res = _or(lv)
            for g in self.from_impls(b.lty(t['dest']['l'])['adt']):
                self.pass_args(b, bi, g, args, lv)
                res |= self.TR.get(g.id, 0)
        elif closure_args and q.endswith(CLOSURE_RESULT_ADAPTERS):
            res = _or([self.TR.get(cb, 0) for _, cb in closure_args]) & VANY
            res |= (lv[0] & C) if lv else 0
        elif q.endswith(CARDINALITY_READERS):
            res = V1 if (_or(lv) & C) else 0
        elif q.endswith('::min') and len(lv) == 2:
            res = 0 if (lv[0] & VANY == 0 or lv[1] & VANY == 0) else _or(lv)
        else:
            res = _or(lv)
            if args and args[0]['k'] in ('copy', 'move'):
                ty0 = b.lty(args[0]['pl']['l'])
                if ty0.get('k') == 'ref' and ty0.get('mut') and len(lv) > 1 and _or(lv[1:]):
                    base = b.base_of(args[0])
                    named = [x for x in base[1] if x[0] and isinstance(x[1], str) and x[0].startswith(('bita::', 'bitar::'))]
                    mbits = 0
                    for a_, l_ in zip(args[1:], lv[1:]):
                        if l_ and not (a_['k'] in ('copy', 'move') and self.op_type(b, a_).get('k') in ('int', 'uint')
                                       and self.op_sanitised(b, a_, bi) is not None):
                            mbits |= l_
                    if q.endswith(GROWERS) and (mbits or _or(lv[1:])):
                        mbits |= C      # attacker-chosen elements: their number is attacker-chosen too
                    if named:
                        self.up(self.TF, (named[-1][0], None, named[-1][1]), mbits)
                    else:
                        self.up(self.TL, (b.id, base[0]), self.mask(b, b.lty(base[0]), mbits) or mbits)
        self.store(b, t['dest'], res, bi)

    def pass_args(self, b, bi, g, args, lv):
        for i, l1 in enumerate(lv):
            if i + 1 <= g.arg_count and l1:
                if g.raw['kind'] == 'Closure' and i == 0:
                    continue
                if self.op_sanitised(b, args[i], bi) is None:
                    self.up(self.TL, (g.id, i + 1), self.mask(g, g.lty(i + 1), l1) if g.lty(i + 1).get('k') in ('int', 'uint', 'bool') else l1)

    # ------------------------------------------------------------ sinks
    def sinks(self, region=None):
        out = []
        for b in self.f.bodies.values():
            if region is not None and b.id not in region:
                continue
            if b.generated or ' as prost::message::Message>' in b.q:
                continue
            for bi in b.live:
                blk = b.blocks[bi]
                t = blk['term']
                if t['k'] == 'assert':
                    ak = t['ak']
                    aops = t['ops']
                    if ak in ('DivisionByZero', 'RemainderByZero'):
                        # the assert carries the dividend; the divisor is the operand compared with zero in `cond`
                        aops = self.divisor_of(b, t) or aops
                    lv = [vlevel(self.op_level(b, o)) for o in aops]
                    if ak in ('Overflow(Shl)', 'Overflow(Shr)') and len(lv) == 2:
                        lv = [0, lv[1]]
                    if ak == 'BoundsCheck' and len(lv) == 2 and self.const_of(b, aops[1]) is None:
                        # slice[i]: the hazard is in the index; a length the peer chose matters only for a fixed position
                        lv = [0, lv[1]]
                    if ak in ('DivisionByZero', 'RemainderByZero'):
                        pass
                    m = max(lv or [0])
                    if not m:
                        continue
                    # an addition / multiplication carried out in 32 bits (or less) overflows with 32-bit operands just the same
                    narrow_op = ak in SINK_ASSERT_WIDE and m == 1 and any(self.op_type(b, o).get('bits', 64) <= 32 for o in aops if o['k'] in ('copy', 'move')) \
                        and all(self.op_type(b, o).get('bits', 64) <= 32 for o in aops if o['k'] in ('copy', 'move'))
                    if ak in SINK_ASSERT_ALWAYS or (ak in SINK_ASSERT_WIDE and m == 2) or narrow_op:
                        ops = [o for o, l1 in zip(aops, lv) if l1]
                        guards = [self.op_sanitised(b, o, bi) for o in ops]
                        if ak == 'BoundsCheck' and len(aops) == 2 and self.const_of(b, aops[1]) is not None \
                                and self.fixed_window(b) > self.const_of(b, aops[1]):
                            guards = [-1 for _ in ops]      # item of windows(n) / chunks_exact(n): exactly n elements by contract
                        if ak == 'Overflow(Sub)' and len(aops) == 2 and self.shrinking_lens(b, aops):
                            guards = [-1 for _ in ops]      # an earlier length minus a later length of a list that only shrinks in between
                        ok = all(g is not None for g in guards)
                        out.append(self.site(b, ak, aops, t['loc'], m, ok, guards, dest=self.result_dest(b, t)))
                elif t['k'] == 'call' and 'q' in t['callee']:
                    q = callee_q(t)
                    gq = t['callee']['q']
                    if gq in ('core::ops::index::Index::index', 'core::ops::index::IndexMut::index_mut') and len(t['args']) == 2 and \
                            t['args'][0]['k'] in ('copy', 'move') and t['args'][1]['k'] in ('copy', 'move') and \
                            'Range' in (b.lty(t['args'][1]['pl']['l']).get('adt') or '') and self._is_str(b, b.lty(t['args'][0]['pl']['l'])):
                        # a byte-offset slice of a string from the archive: off a character boundary it panics whatever its length
                        l0 = vlevel(self.op_level(b, t['args'][0]))
                        if l0:
                            dom = b.dominators().get(bi, set())
                            g = None
                            for cbi, ct in b.calls():
                                if 'q' in ct['callee'] and callee_q(ct).endswith('is_char_boundary') and cbi in dom:
                                    g = cbi
                            out.append(self.site(b, 'str-slice', [t['args'][0]], t['loc'], l0, g is not None, [g]))
                    if gq in ('core::ops::index::Index::index', 'core::ops::index::IndexMut::index_mut') and len(t['args']) == 2 and \
                            t['args'][0]['k'] in ('copy', 'move') and self.const_of(b, t['args'][1]) is not None and (self.op_level(b, t['args'][0]) & C):
                        # a fixed position in a list whose *length* the peer chooses (`parts[2]` of a split version string): out of
                        # range for a short list whatever the index; discharged by a dominating test of that list's len() / is_empty()
                        base = b.base_of(t['args'][0])
                        rty = b.lty(base[0]) if base else {}
                        while rty.get('k') in ('ref', 'rawptr') and rty.get('args'):
                            rty = b.ty(rty['args'][0])
                        if base and rty.get('k') != 'array':
                            lk = ('LEN', base[0], tuple(x[1] for x in base[1]))
                            keys = {lk}
                            for cbi_, ct_ in b.calls():
                                if 'q' in ct_['callee'] and callee_q(ct_).endswith('::len') and ct_['args'] and not ct_['dest']['p']:
                                    cb_ = b.base_of(ct_['args'][0])
                                    if cb_ and cb_[0] == base[0] and [x[1] for x in cb_[1]] == [x[1] for x in base[1]]:
                                        k_ = self.vkey(b, {'k': 'copy', 'pl': {'l': ct_['dest']['l'], 'p': []}})
                                        if k_:
                                            keys.add(k_)
                            dom_ = b.dominators().get(bi, set())
                            g = None
                            for cb2, ents in self.cmp_blocks(b).items():
                                if cb2 in dom_ and cb2 != bi and any(e_[0] in keys for e_ in ents):
                                    g = cb2
                            out.append(self.site(b, 'index-const', [t['args'][0]], t['loc'], 1, g is not None, [g]))
                    for key in (q, gq):
                        if key in SINK_CALLS:
                            for ai in SINK_CALLS[key]:
                                if ai < len(t['args']):
                                    a = t['args'][ai]
                                    l1 = vlevel(self.op_level(b, a))
                                    name = key.split('::')[-1]
                                    if name in ALLOC and l1 < 2:
                                        continue
                                    if l1:
                                        g = self.op_sanitised(b, a, bi, zero=name in ZERO_HAZARD_CALLS and name in ('buffered', 'buffer_unordered'))
                                        if g is None and a['k'] in ('copy', 'move'):
                                            g = self.range_guard(b, a['pl']['l'], bi)
                                        out.append(self.site(b, name, [a], t['loc'], l1, g is not None, [g]))
                            break
                for st in blk['stmts']:
                    if st['k'] == 'assign' and st['rv']['k'] == 'agg' and st['rv']['ak'] == 'adt' and not st.get('exp'):
                        rv = st['rv']
                        var = rv['vname'] if self.is_enum(rv['adt']) else None
                        for name, o in zip(rv['fields'], rv['ops']):
                            if (rv['adt'], var, name) in MUST_VALIDATE_FIELDS:
                                l1 = vlevel(self.op_level(b, o))
                                if l1:
                                    g = self.op_sanitised(b, o, bi, zero=(rv['adt'], var, name) in self.zero_hazard)
                                    out.append(self.site(b, 'store:' + rv['adt'].split('::')[-1] + ('::' + var if var else '') + '.' + name,
                                                         [o], st['loc'], l1, g is not None, [g]))
        return out

    def _is_str(self, b, ty, depth=0):
        if ty.get('k') in ('ref', 'rawptr') and ty.get('args') and depth < 3:
            return self._is_str(b, b.ty(ty['args'][0]), depth + 1)
        return ty.get('k') == 'str' or ty.get('s') in ('str', 'std::string::String', 'alloc::string::String') or ty.get('adt') == 'alloc::string::String'

    def const_of(self, b, o, depth=0):
        if o['k'] == 'const':
            return o.get('int')
        if o['k'] in ('copy', 'move') and not o['pl']['p'] and depth < 4:
            ds = b.defs().get(o['pl']['l'], [])
            if len(ds) == 1 and ds[0][0] == 'assign' and ds[0][1]['rv']['k'] in ('use', 'cast'):
                return self.const_of(b, ds[0][1]['rv']['op'], depth + 1)
        return None

    _dest_roles = {}

    def fixed_window(self, b):
        """for a closure applied to the items of `windows(n)` / `chunks_exact(n)` with a constant n: that n (else 0)"""
        if b.raw['kind'] != 'Closure' or not b.raw.get('parent'):
            return 0
        pb = self.f.bodies.get(b.raw['parent']) or getattr(self.f, 'original', {}).get(b.raw['parent'])
        if pb is None:
            return 0
        n = 0
        for bi, t in pb.calls():
            if 'q' in t['callee'] and callee_q(t).split('::')[-1] in ('windows', 'chunks_exact', 'array_windows') and len(t['args']) > 1 \
                    and t['args'][1]['k'] == 'const' and 'int' in t['args'][1]:
                n = max(n, t['args'][1]['int'])
        return n

    def divisor_of(self, b, t):
        c = t['cond']
        if c['k'] not in ('copy', 'move'):
            return None
        for d in b.defs().get(c['pl']['l'], []):
            if d[0] == 'assign' and d[1]['rv']['k'] == 'binop' and d[1]['rv']['op'] == 'Eq':
                return [d[1]['rv']['a']]
        return None

    def result_dest(self, b, t):
        """where the checked arithmetic result goes: a field (by name), a mutable variable ('var'), or a temporary ('tmp')"""
        nb = t.get('t')
        if nb is None:
            return 'tmp'
        for st in b.blocks[nb]['stmts'][:2]:
            if st['k'] == 'assign' and st['rv']['k'] == 'use' and st['rv']['op']['k'] in ('copy', 'move') \
                    and st['rv']['op']['pl']['p'] and st['rv']['op']['pl']['p'][-1]['k'] == 'field':
                pl = st['pl']
                base = b.base_of_place(pl)
                if base[1]:
                    plain = self.place_desc(b, pl)
                    self._roles = True
                    try:
                        self._dest_roles[plain] = self.place_desc(b, pl)
                    finally:
                        self._roles = False
                    return plain
                l = base[0]
                if b.locals[l]['name'] and b.locals[l].get('user') and len(b.defs().get(l, [])) > 1:
                    return 'var'
                return 'tmp'
        return 'tmp'

    def module_of(self, b):
        q = b.q
        if q.startswith('<'):
            q = q[1:].split(' as ')[0]
        segs = []
        for sgm in q.split('::'):
            if sgm and (sgm[0].islower() or sgm[0] == '_') and not sgm.startswith('{'):
                segs.append(sgm)
            else:
                break
        # a free function's own name is lower case too: drop it when the path names a function, not a module
        if not b.q.startswith('<') and len(segs) == len([x for x in b.q.split('::') if not x.startswith('{')]):
            segs = segs[:-1]
        return '::'.join(segs)

    def site(self, b, kind, ops, loc, level, guarded, guards, dest=None):
        desc = self.desc(b, ops)
        self._roles = True
        try:
            rdesc = self.desc(b, ops)
            rdest = self.result_dest_cached(b, dest)
        finally:
            self._roles = False
        if dest:
            desc = desc + ['->' + dest]
            rdesc = rdesc + ['->' + rdest]
        return {'rule': 'R-UNTRUSTED', 'function': b.q, 'kind': kind, 'operands': desc, 'at': loc, 'level': level,
                'verdict': 'guarded' if guarded else 'UNGUARDED',
                'guard_at': [b.blocks[g]['term']['loc'] if isinstance(g, int) and g >= 0 else ('contract' if g == -1 else None) for g in guards],
                'key': 'R-UNTRUSTED|%s|%s|%s' % (b.q, kind, ','.join(desc)),
                'rkey': 'R-UNTRUSTED|%s|%s|%s' % (self.module_of(b), kind, ','.join(rdesc))}

    def result_dest_cached(self, b, dest):
        """role form of a destination description (a field path rendered by type tags)"""
        if not dest or dest in ('tmp', 'var'):
            return dest or ''
        parts = dest.split('.')
        # the textual dest was produced by place_desc without roles: re-render the trailing field names we can resolve
        return '.'.join([parts[0]] + ['#' if i else p for i, p in enumerate(parts[1:])]) if False else self._dest_roles.get(dest, dest)

    def range_guard(self, b, local, block):
        for d in b.defs().get(local, []):
            if d[0] == 'assign' and d[1]['rv']['k'] == 'agg':
                gs = []
                for o in d[1]['rv']['ops']:
                    if self.op_level(b, o) & VANY:
                        gs.append(self.op_sanitised(b, o, block))
                if gs and all(g is not None for g in gs):
                    return gs[0]
        return None

    # ---- operand descriptions: what identifies a site in a key.  Built from provenance only (parameters by position,
    #      fields by name, calls by name) so that renaming a local variable does not change a key.
    def desc(self, b, ops):
        return [self.describe(b, o) for o in ops]

    def _stored_to_self_field(self, b, l):
        """role form: a local whose value is what one store puts into a field of self (`let n = f(..); self.count = n;`) is that field"""
        hit = []
        same = {l}          # l and the temporaries that are plain copies of it
        for bi in b.live:
            for st in b.blocks[bi]['stmts']:
                if st['k'] == 'assign' and not st['pl']['p'] and st['rv']['k'] == 'use' and st['rv']['op']['k'] in ('copy', 'move') and not st['rv']['op']['pl']['p'] \
                        and st['rv']['op']['pl']['l'] == l and len(b.defs().get(st['pl']['l'], [])) == 1 and not b.locals[st['pl']['l']].get('user'):
                    same.add(st['pl']['l'])
        for bi in b.live:
            for st in b.blocks[bi]['stmts']:
                if st['k'] == 'assign' and st['pl']['p'] and st['pl']['p'][-1]['k'] == 'field' and st['rv']['k'] == 'use' and st['rv']['op']['k'] in ('copy', 'move') \
                        and not st['rv']['op']['pl']['p'] and st['rv']['op']['pl']['l'] in same:
                    base = b.base_of_place(st['pl'])
                    if base and self.local_desc(b, base[0], 9) == 'self':
                        hit.append(base)
        if len(hit) == 1 and len(b.defs().get(l, [])) == 1:
            return 'self' + ''.join('.' + self.field_tag(x[0], x[1]) for x in hit[0][1])
        return None

    def local_desc(self, b, l, depth=0):
        if getattr(self, '_roles', False) and depth < 9 and l > b.arg_count:
            al = self._stored_to_self_field(b, l)
            if al:
                return al
        if 1 <= l <= b.arg_count:
            if b.locals[l]['name'] == 'self':
                return 'self'
            if b.raw['kind'] == 'Closure':
                return 'env' if l == 1 else 'p%d' % (l - 2)
            return 'p%d' % (l - 1)
        # a parameter of an inlined helper is what was passed for it
        ds = b.defs().get(l, [])
        if len(ds) != 1 or depth > 5:
            # a re-borrow of the receiver that is assigned on several paths is still the receiver
            ty = b.lty(l)
            n = 0
            while ty.get('k') in ('ref', 'rawptr') and ty.get('args') and n < 4:
                ty = b.ty(ty['args'][0])
                n += 1
            if n and ty.get('adt') and ty['adt'] in self.f.adts and ty['adt'] in b.q:
                return 'self'
            return 'var'
        return self.def_desc(b, l, depth) or 'var'

    def field_tag(self, adt, name):
        """a private field of a crate-local struct by what it is (its type), so that renaming it does not change a reviewed key"""
        a = self.f.adts.get(adt) if adt else None
        if not a or not a['variants']:
            return str(name)
        crate = adt.split('::')[0]
        for v in a['variants']:
            for fd in v['fields']:
                if fd['n'] == name:
                    if 'Public' in str(fd.get('vis')) or str(fd.get('vis')).startswith('Restricted') is False and 'pub' in str(fd.get('vis')).lower():
                        return str(name)
                    ty = self.f.types.get((crate, fd['ty']), {})
                    tag = (ty.get('adt') or ty.get('s') or ty.get('k') or '?').split('::')[-1].split('<')[0]
                    return '#' + tag
        return str(name)

    def place_desc(self, b, pl, depth=0):
        base = b.base_of_place(pl)
        s = self.local_desc(b, base[0], depth + 1)
        fields = list(base[1])
        if s == 'env' and fields and b.raw['kind'] == 'Closure' and depth < 4:
            # a captured variable is what the enclosing function captured: described there, so that moving a site into (or out
            # of) a nested closure does not change what identifies it
            cap = self._captured(b, fields[0][1])
            if cap is not None:
                s = cap
                fields = fields[1:]
        if getattr(self, '_roles', False):
            # (the payload hop of an Option / Result - `(x as Some).0` - is how the value is reached, not part of what it is)
            tags = [self.field_tag(x[0], x[1]) for x in fields if x[0] not in ('core::option::Option', 'core::result::Result')]
            # a hop through a private struct of the crate that merely groups fields (`self.progress.chunk_index`) is not part of
            # what identifies the value
            local_names = {a.split('::')[-1] for a in self.f.adts}
            tags = [t_ for i_, t_ in enumerate(tags) if not (t_.startswith('#') and t_[1:] in local_names and i_ + 1 < len(tags))]
            s += ''.join('.' + t_ for t_ in tags)
        else:
            s += ''.join('.' + str(x[1]) for x in fields)
        if any(p['k'] in ('index', 'constindex', 'subslice') for p in pl['p']) and not getattr(self, '_roles', False):
            s += '[]'
        return s

    def _captured(self, b, idx):
        par = self.f.bodies.get(b.raw.get('parent') or '')
        if par is None or not isinstance(idx, int):
            return None
        for bi in par.live:
            for st in par.blocks[bi]['stmts']:
                if st['k'] == 'assign' and st['rv']['k'] == 'agg' and st['rv'].get('ak') in ('closure', 'coroutine') and st['rv'].get('body') == b.id \
                        and idx < len(st['rv']['ops']):
                    d = self.describe(par, st['rv']['ops'][idx], 3)
                    return d if d and d not in ('var', 'tmp', 'None') else None
        return None

    def describe(self, b, o, depth=0):
        if o['k'] in ('copy', 'move'):
            return self.place_desc(b, o['pl'], depth)
        return str(o.get('int', o.get('s')))

    def def_desc(self, b, l, depth=0):
        ds = b.defs().get(l, [])
        if len(ds) != 1 or depth > 5:
            return ''
        d = ds[0]
        if d[0] == 'call':
            if 'q' not in d[1]['callee']:
                return 'call(..)'
            inner = ''
            if d[1]['args']:
                inner = self.describe(b, d[1]['args'][0], depth + 1)
            name = callee_q(d[1]).split('::')[-1]
            if name in ('deref', 'deref_mut', 'as_ref', 'as_mut', 'get_mut', 'get_ref', 'borrow', 'borrow_mut', 'new_unchecked', 'into_ref') and inner:
                return inner            # the same object seen through a smart pointer / Pin
            if getattr(self, '_roles', False) and name in ('first', 'last', 'get', 'first_mut', 'last_mut') and inner and \
                    b.lty(d[1]['dest']['l']).get('adt') == 'core::option::Option':
                return inner            # role form: an element of the list, however it is reached (`list[0]`, `list.first()`)
            return name + '(' + inner + ')'
        if d[0] != 'assign':
            return ''
        rv = d[1]['rv']
        if rv['k'] in ('use', 'cast'):
            return self.describe(b, rv['op'], depth + 1)
        if rv['k'] == 'binop':
            parts = [self.describe(b, o, depth + 1) for o in (rv['a'], rv['b'])]
            return '(' + (' %s ' % rv['op'].replace('WithOverflow', '')).join(parts) + ')'
        if rv['k'] == 'agg':
            return 'range' if 'Range' in (rv.get('adt') or '') else rv['k']
        if rv['k'] in ('ref', 'rawptr'):
            return self.place_desc(b, rv['pl'], depth + 1)
        if rv['k'] == 'unop':
            return rv['op'] + '(' + self.describe(b, rv['a'], depth + 1) + ')'
        return rv['k']


def _or(xs):
    r = 0
    for x in xs:
        r |= x
    return r
