"""E5: error discipline (R-ERR) and short-I/O discipline (R-EXACTIO)."""
import collections
from ..facts import callee_q, rv_operands, rv_places

RESULT = 'core::result::Result'
# log-and-continue is only acceptable where continuing is the documented behaviour: the two HTTP retry loops
LOGGED_ONLY_REVIEWED = {
    'bitar::archive_reader::http_range_request::HttpRangeRequest::poll_read': 'retry loop: the error is returned once the retry budget is spent (R-RETRY)',
    'bitar::archive_reader::http_range_request::{impl#0}::single::{closure#0}': 'retry loop: the error is returned once the retry budget is spent (R-RETRY)',
}
# one named function each, with the reason
ITEM_IGNORED_REVIEWED = {
    'bita::cli::parse_input_archive_config': 'the input is tried as a URL only after it was not found as a file: a parse failure selects the "no such input" error below, it is not an error of its own',
}
DISCARDERS = ('core::result::Result::ok', 'core::result::Result::err', 'core::result::Result::unwrap_or',
              'core::result::Result::unwrap_or_default', 'core::result::Result::unwrap_or_else', 'core::result::Result::map_or',
              'core::result::Result::map_or_else', 'core::mem::drop', 'core::result::Result::iter', 'core::result::Result::into_iter',
              'core::result::Result::is_ok_and', 'core::result::Result::is_err_and')
# ok()/err() are fine when the Option they produce is itself propagated with `?`; rare here, so listed as discarders.
COUNTED_IO = ('tokio::io::util::async_read_ext::AsyncReadExt::read', 'tokio::io::util::async_write_ext::AsyncWriteExt::write',
              'tokio::io::util::async_read_ext::AsyncReadExt::read_buf', 'tokio::io::util::async_write_ext::AsyncWriteExt::write_buf',
              'std::io::Read::read', 'std::io::Write::write', 'tokio::io::util::async_write_ext::AsyncWriteExt::write_vectored')


def uses_index(b):
    """local -> list of (kind, detail, loc, place)   kinds: operand-stmt, place-stmt, callarg, switch, yield, proj-write"""
    uses = collections.defaultdict(list)
    for bi in b.live:
        blk = b.blocks[bi]
        for st in blk['stmts']:
            if st['k'] != 'assign':
                continue
            for o in rv_operands(st['rv']):
                if o['k'] in ('copy', 'move'):
                    uses[o['pl']['l']].append(('operand', st, st['loc'], o['pl']))
            for p in rv_places(st['rv']):
                uses[p['l']].append(('place', st, st['loc'], p))
            if st['pl']['p']:
                uses[st['pl']['l']].append(('proj-write', st, st['loc'], st['pl']))
        t = blk['term']
        if t['k'] == 'call':
            for a in t['args']:
                if a['k'] in ('copy', 'move'):
                    uses[a['pl']['l']].append(('callarg', t, t['loc'], a['pl']))
            if 'indirect' in t['callee'] and t['callee']['indirect']['k'] in ('copy', 'move'):
                uses[t['callee']['indirect']['pl']['l']].append(('callee', t, t['loc'], t['callee']['indirect']['pl']))
        elif t['k'] == 'switch' and t['op']['k'] in ('copy', 'move'):
            uses[t['op']['pl']['l']].append(('switch', t, t['loc'], t['op']['pl']))
        elif t['k'] == 'yield' and t['value']['k'] in ('copy', 'move'):
            uses[t['value']['pl']['l']].append(('yield', t, t['loc'], t['value']['pl']))
        elif t['k'] == 'assert':
            for o in [t['cond']] + t['ops']:
                if o['k'] in ('copy', 'move'):
                    uses[o['pl']['l']].append(('assert', t, t['loc'], o['pl']))
    return uses


def scope(facts, cg):
    roots = [b.id for b in facts.bodies.values() if b.crate == 'bita' and b.q in (
        'bita::clone_cmd::clone_cmd', 'bita::compress_cmd::compress_cmd', 'bita::info_cmd::info_cmd', 'bita::cli::parse_opts')]
    return cg.reachable(roots), roots


def def_loc(b, l):
    ds = b.defs().get(l, [])
    for d in ds:
        if d[0] == 'call':
            return d[1]['loc'], (callee_q(d[1]) if 'q' in d[1]['callee'] else 'indirect')
        if d[0] == 'assign':
            return d[1]['loc'], d[1]['rv']['k']
    return '?', '?'


def run(facts, cg):
    reach, roots = scope(facts, cg)
    instances, findings = [], []
    n_results = 0
    n_counts = 0

    def finding(rule, b, what, detail):
        key = '%s|%s|%s' % (rule, b.q, what)
        if key not in {x['key'] for x in findings}:
            findings.append({'rule': rule, 'key': key, 'function': b.q, 'what': detail})
    for bid in sorted(reach):
        b = facts.bodies[bid]
        if b.generated:
            continue
        uses = uses_index(b)
        for l in range(b.arg_count + 1, len(b.locals)):
            if b.lty(l).get('adt') != RESULT:
                continue
            if not b.defs().get(l):
                continue
            loc, how = def_loc(b, l)
            if how in VIEWS:
                continue            # a borrowed view / copy of another Result: the obligation stays with the original
            n_results += 1
            us = uses.get(l, [])
            if not us:
                finding('R-ERR', b, 'dropped:%s' % how.split('::')[-1], 'a Result produced at %s (%s) is discarded without being inspected' % (loc, how))
                continue
            # all uses are discarders?
            kinds = []
            for (k, node, uloc, pl) in us:
                if k == 'callarg' and 'q' in node['callee'] and callee_q(node) in DISCARDERS and not pl['p']:
                    kinds.append(('discard', callee_q(node), uloc))
                else:
                    kinds.append(('use', k, uloc))
            # Result::ok()/err() whose Option is itself put to use (ok_or, ?, returned) converts, it does not discard
            def _conv_used(node):
                return callee_q(node) in ('core::result::Result::ok', 'core::result::Result::err') and not node['dest']['p'] \
                    and bool(uses.get(node['dest']['l']) or node['dest']['l'] == 0)
            if all(x[0] == 'discard' for x in kinds) and not any(
                    k == 'callarg' and 'q' in node['callee'] and _conv_used(node) for (k, node, uloc, pl) in us):
                finding('R-ERR', b, 'discarded-by:%s' % kinds[0][1].split('::')[-1],
                        'the Result produced at %s (%s) only flows into %s at %s: its error is thrown away' % (loc, how, kinds[0][1], kinds[0][2]))
                continue
            # match with an ignored Err arm: discriminant read, Ok payload used, Err payload never touched, and the value is not moved on
            whole_moves = [uloc for (k, node, uloc, pl) in us if not pl['p'] and k in ('operand', 'callarg', 'yield')]
            err_payload = [uloc for (k, node, uloc, pl) in us if any(p['k'] == 'downcast' and p.get('n') == 'Err' for p in pl['p'])]
            ok_payload = [uloc for (k, node, uloc, pl) in us if any(p['k'] == 'downcast' and p.get('n') == 'Ok' for p in pl['p'])]
            refs = [uloc for (k, node, uloc, pl) in us if k == 'place' and not pl['p'] and node['rv']['k'] == 'ref']
            # Err payload only ever formatted (logged): log-and-continue
            if err_payload and not whole_moves:
                sinks_ = _payload_sinks(b, uses, us)
                if sinks_ and all(x == 'format' for x in sinks_) and b.q not in LOGGED_ONLY_REVIEWED:
                    finding('R-ERR', b, 'err-logged-only:%s' % how.split('::')[-1], 'the error of the Result produced at %s (%s) is only logged; the function carries on as if it had succeeded' % (loc, how))
            if not whole_moves and not err_payload and not refs and ok_payload and not _err_arm_fails(b, l):
                finding('R-ERR', b, 'err-arm-ignored:%s' % how.split('::')[-1], 'the Err case of the Result produced at %s (%s) is matched away without using the error' % (loc, how))
        # ---- Results nested in Option / Poll (stream items): `while let Some(Ok(x)) = s.next().await` ends the loop on an
        #      error item and carries on as if the stream had ended
        for l in range(b.arg_count + 1, len(b.locals)):
            chain = _wrapper_chain(b, b.lty(l))
            if not chain or not b.defs().get(l):
                continue
            n_results += 1
            us = uses.get(l, [])
            loc, how = def_loc(b, l)
            moved_on, err_payload, ok_payload = [], [], []
            for (k, node, uloc, pl) in us:
                rest = _strip_chain(pl['p'], chain)
                is_discr = k == 'place' and node['rv']['k'] == 'discr'
                if rest is None:
                    # a use of the whole value or of an outer level: moved / borrowed on means someone else inspects it
                    if not is_discr and k != 'proj-write':
                        moved_on.append(uloc)
                    continue
                if not rest:
                    if not is_discr:
                        moved_on.append(uloc)
                    continue
                if any(p['k'] == 'downcast' and p.get('n') == 'Err' for p in rest):
                    err_payload.append(uloc)
                if any(p['k'] == 'downcast' and p.get('n') == 'Ok' for p in rest):
                    ok_payload.append(uloc)
            if ok_payload and not err_payload and not moved_on and b.q not in ITEM_IGNORED_REVIEWED:
                finding('R-ERR', b, 'err-item-ignored:%s' % how.split('::')[-1],
                        'the item produced at %s (%s) is only matched as %s(Ok(..)): an error item is matched away unseen and the '
                        'function carries on as if the stream had ended' % (loc, how, '('.join(chain)))
        # ---- R-EXACTIO: the count returned by a non-exact read/write must be used
        for bi, t in b.calls():
            if 'q' not in t['callee'] or t['callee']['q'] not in COUNTED_IO:
                continue
            n_counts += 1
            if not count_used(b, uses, t['dest']['l']):
                finding('R-EXACTIO', b, 'count-ignored:%s' % t['callee']['q'].split('::')[-1],
                        'the byte count of %s at %s is never looked at (a short read/write would go unnoticed)' % (t['callee']['q'], t['loc']))
            elif t['callee']['q'].split('::')[-1] in ('read', 'read_buf') and not count_used(b, uses, t['dest']['l'], direct_only=True):
                # a read that returns 0 says "no more": the count itself must meet a test before it disappears into a running total
                # (`while filled < size { filled += read(..)? }` spins for ever on a source that ends early)
                finding('R-EXACTIO', b, 'zero-read-unnoticed:%s' % t['callee']['q'].split('::')[-1],
                        'the byte count of %s at %s is only added to a running total: a read of 0 bytes (end of the data) is not noticed, the loop around it '
                        'never ends on a source that is shorter than expected' % (t['callee']['q'], t['loc']))
    instances.append({'rule': 'R-ERR', 'obligations': n_results, 'functions_in_scope': len(reach), 'entry_points': [facts.bodies[r].q for r in roots], 'result_values_checked': n_results})
    instances.append({'rule': 'R-EXACTIO', 'obligations': n_counts, 'counted_io_calls': n_counts})
    if not roots or n_results < 50:
        findings.append({'rule': 'R-ERR', 'key': 'R-ERR|floor', 'function': '-', 'what': 'entry points not found / too few Result values (cannot decide)'})
    return instances, findings


# errors that mean "this data is not what the archive says it is": whoever sees one must fail, not look for a way to carry on
FATAL = ('bitar::chunk::ArchiveChunk::verify', 'bitar::chunk::CompressedArchiveChunk::decompress', 'bitar::chunk::CompressedChunk::decompress',
         'bitar::archive::Archive::try_init')


def run_fatal(facts, cg):
    from .r_misc import _variant_edges
    from .r_steps import exit_outcomes_from
    instances, findings = [], []
    n = 0
    for b in facts.bodies.values():
        if b.crate != 'bita' or b.generated:
            continue
        for bi, t in b.calls():
            if 'q' not in t['callee'] or callee_q(t) not in FATAL or t['dest']['p']:
                continue
            if b.lty(t['dest']['l']).get('adt') != RESULT:
                continue        # an async fn: its future is dispatched where it is awaited (inlined poll sites carry the Result)
            n += 1
            edges = _variant_edges(b, t['dest']['l'], 1, conveyors=True)
            bad = [tg for sbi, tg in edges if not (exit_outcomes_from(b, tg) <= {'Err'})]
            instances.append({'rule': 'R-ERR(fatal)', 'function': b.q, 'call': callee_q(t), 'at': t['loc'], 'error_dispatches': len(edges), 'non_fatal': len(bad)})
            if bad:
                key = 'R-ERR|%s|not-fatal:%s' % (b.q, callee_q(t).split('::')[-1])
                if key not in {x['key'] for x in findings}:
                    findings.append({'rule': 'R-ERR', 'key': key, 'function': b.q,
                                     'what': 'the error of %s at %s (data that is not what the archive says) can end in a success of this function: a chunk '
                                             'that failed verification is replaced or skipped instead of failing the clone' % (callee_q(t), t['loc'])})
    # the exit status: main hands the Result of the command to the runtime (which prints it and exits 1); it does not compute a
    # status of its own (an I/O error synthesised by tokio has no OS error number - `raw_os_error().unwrap_or_default()` is 0)
    for b in facts.bodies.values():
        if b.q == 'bita::main':
            is_res = b.lty(0).get('adt') == RESULT
            exits = [callee_q(t) for _, t in b.calls() if 'q' in t['callee'] and callee_q(t) in ('std::process::exit', 'std::process::abort')]
            instances.append({'rule': 'R-ERR(exit-status)', 'function': b.q, 'returns_result': is_res, 'explicit_exits': exits})
            if not is_res or exits:
                findings.append({'rule': 'R-ERR', 'key': 'R-ERR|bita::main|exit-status', 'function': b.q,
                                 'what': 'main %s: whether a failed command ends with a non-zero status is decided by hand-written code, not by returning the error'
                                         % ('does not return a Result' if not is_res else 'calls ' + ', '.join(exits))})
    if n < 2:
        findings.append({'rule': 'R-ERR', 'key': 'R-ERR|-|floor-fatal', 'function': '-', 'what': 'expected the decompress / verify calls of the clone command, found %d (cannot decide)' % n})
    return instances, findings


def _err_arm_fails(b, l):
    """`match r { Ok(v) => .., Err(_) => return Err(other) }`: the error is replaced, not swallowed - every way out of the
    Err arm leaves the function with an error"""
    from .r_steps import exit_outcomes_from
    found = False
    for bi in b.live:
        sw = b.blocks[bi]['term']
        if sw['k'] != 'switch' or sw['op']['k'] not in ('copy', 'move') or sw['op']['pl']['p']:
            continue
        for d_ in b.defs().get(sw['op']['pl']['l'], []):
            if d_[0] == 'assign' and d_[1]['rv']['k'] == 'discr' and d_[1]['rv']['pl']['l'] == l and not d_[1]['rv']['pl']['p']:
                tgt = dict(zip(sw['vals'], sw['targets'])).get(1)
                if tgt is None:
                    tgt = sw['otherwise'] if 0 in sw['vals'] else None
                if tgt is None:
                    return False
                if not (exit_outcomes_from(b, tgt) <= {'Err'}):
                    return False
                found = True
    return found


VIEWS = ('core::result::Result::as_ref', 'core::result::Result::as_mut', 'core::result::Result::as_deref',
         'core::result::Result::as_deref_mut', 'core::result::Result::copied', 'core::result::Result::cloned')
WRAPPERS = {'core::option::Option': 'Some', 'core::task::poll::Poll': 'Ready'}


def _wrapper_chain(b, ty, depth=0):
    """['Some'] for Option<Result<..>>, ['Ready', 'Some'] for Poll<Option<Result<..>>>, None otherwise"""
    chain = []
    while depth < 3 and ty.get('adt') in WRAPPERS and ty.get('args'):
        chain.append(WRAPPERS[ty['adt']])
        ty = b.ty(ty['args'][0])
        depth += 1
    if chain and ty.get('adt') == RESULT:
        return chain
    return None


def _strip_chain(proj, chain):
    """projection elements below the wrapped Result if the place goes through every wrapper payload, else None"""
    p = [x for x in proj if x['k'] != 'deref']
    i = 0
    for v in chain:
        if i + 1 < len(p) + 1 and i < len(p) and p[i]['k'] == 'downcast' and p[i].get('n') == v and i + 1 < len(p) and p[i + 1]['k'] == 'field':
            i += 2
        else:
            return None
    return p[i:]


def _payload_sinks(b, uses, us):
    """where do the Err payloads extracted from a Result end up: 'format' (fmt::Argument), 'other'"""
    out = []
    work = []
    for (k, node, uloc, pl) in us:
        if any(p['k'] == 'downcast' and p.get('n') == 'Err' for p in pl['p']) and k in ('operand', 'place'):
            work.append(node['pl']['l'])
    seen = set()
    while work:
        l = work.pop()
        if l in seen:
            continue
        seen.add(l)
        for (k, node, uloc, pl) in uses.get(l, []):
            if k == 'callarg' and 'q' in node['callee']:
                q = callee_q(node)
                if q.startswith('core::fmt::rt::Argument::new'):
                    out.append('format')
                elif q.endswith(('Deref>::deref', 'AsRef>::as_ref')):
                    work.append(node['dest']['l'])
                else:
                    out.append('other')
            elif k in ('operand', 'place'):
                if node['pl']['l'] == 0:
                    out.append('other')
                else:
                    work.append(node['pl']['l'])
            elif k in ('switch', 'yield', 'assert'):
                out.append('other')
    return out


def count_used(b, uses, start, depth=0, direct_only=False):
    """follow the value produced by a counted I/O call (future -> await -> Result -> ? -> count) to a use that *reacts* to it:
    a comparison, a branch, a bounds check / slice bound, or an argument of another call.  Adding it to a running total is
    not such a use by itself (the total is followed on): `n += file.write(buf)?` counts bytes, it does not notice a short write."""
    seen = set()
    work = [start]
    while work:
        l = work.pop()
        if l in seen:
            continue
        seen.add(l)
        ty = b.lty(l)
        for (k, node, loc, pl) in uses.get(l, []):
            is_int = ty.get('k') in ('int', 'uint')
            if k in ('operand', 'place'):
                dst = node['pl']['l']
                rvk = node['rv']['k']
                if rvk == 'discr':
                    continue        # reading the discriminant says nothing about the count
                if is_int and rvk == 'binop':
                    if node['rv']['op'] in ('Eq', 'Ne', 'Lt', 'Le', 'Gt', 'Ge'):
                        return True
                    if direct_only:
                        continue            # (the total is another value: what is asked is whether the count itself was looked at)
                    work.append(dst)        # arithmetic: follow the result (a running total, an offset)
                    continue
                if is_int and rvk == 'agg':
                    if node['rv'].get('ak') == 'adt' and 'Range' in (node['rv'].get('adt') or ''):
                        return True         # a slice bound
                    work.append(dst)
                    continue
                work.append(dst)
            elif k == 'proj-write':
                continue
            elif k == 'callarg':
                if is_int:
                    q = callee_q(node) if 'q' in node['callee'] else ''
                    name = q.split('::')[-1]
                    if name in ('checked_add', 'wrapping_add', 'saturating_add', 'add', 'add_assign', 'from', 'into', 'try_from', 'try_into',
                                'new_display', 'new_debug', 'new'):
                        if direct_only and name in ('checked_add', 'wrapping_add', 'saturating_add', 'add', 'add_assign'):
                            continue
                        if not node['dest']['p']:
                            work.append(node['dest']['l'])
                        continue
                    return True
                # wrappers on the way: into_future, poll(Pin), Try::branch, new_unchecked, context/map_err
                if not node['dest']['p']:
                    work.append(node['dest']['l'])
            elif k in ('switch', 'assert') and is_int:
                if k == 'assert' and str(node.get('ak', '')).startswith('Overflow'):
                    continue        # the overflow check of the addition into the total
                return True
    return False
