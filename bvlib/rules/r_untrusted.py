"""R-UNTRUSTED: every sink fed by untrusted data is guarded, or individually reviewed."""
from ..taint import Taint
from ..facts import callee_q
from ..callgraph import CallGraph

ENTRY_SUFFIX = (
    'bitar::archive::Archive::try_init', 'bitar::archive::Archive::chunk_stream', 'bitar::archive::Archive::iter_source_chunks',
    'bitar::archive::Archive::build_source_index', 'bitar::chunk::CompressedArchiveChunk::decompress', 'bitar::chunk::ArchiveChunk::verify',
    'bitar::chunker::config::Config::new_chunker', 'bita::info_cmd::print_archive', 'bita::clone_cmd::clone_archive',
    'bita::info_cmd::info_cmd', 'bita::clone_cmd::clone_cmd',
)
# sites that are safe by a data-structure invariant the checker cannot see: one entry per site, with the reason
# Keys are the role form of a site (`rkey`): module | kind | operands with the private fields of crate-local structs rendered by
# their type (`self.#usize`), public fields by name - so that renaming a private function or field does not orphan an entry.
REVIEWED = {
    'R-UNTRUSTED|bitar::chunk_index|index-const|p0.#Vec':
        'a chunk location always has at least one offset: every add_chunk of the crates passes one, strip drops a location whose offsets ran out (R-STRIP)',
    'R-UNTRUSTED|bitar::archive_reader::http_reader|Overflow(Add)|p0.offset,p0.size,->tmp':
        'offset + size of every descriptor is validated not to overflow when the archive is opened (try_init)',
    'R-UNTRUSTED|bitar::archive_reader::http_reader|Overflow(Add)|next(var).offset,next(var).size,->tmp':
        'the same sum with the pair taken from a loop over windows(2) instead of a closure parameter: offset + size of every descriptor is validated not to overflow when the archive is opened (try_init)',
    'R-UNTRUSTED|bitar::chunk_offset|Overflow(Add)|self.offset,self.size,->tmp':
        'offset + size of every descriptor is validated not to overflow when the archive is opened (try_init)',
    'R-UNTRUSTED|bitar::archive|Overflow(Add)|self.archive_offset,self.archive_size,->tmp':
        'offset + size of every descriptor is validated not to overflow when the archive is opened (try_init)',
    'R-UNTRUSTED|bitar::archive_reader::http_reader|Overflow(Sub)|end(index(self.#Vec)),index(self.#Vec).offset,->tmp':
        'last_adjacent is at or after `next` in an adjacent run, so its end is >= next.offset',
    'R-UNTRUSTED|bitar::archive_reader::http_reader|Overflow(Sub)|self.#usize,1,->tmp':
        'assigned from adjacent_reads() on the line before, which returns count()+1 >= 1',
    'R-UNTRUSTED|bitar::archive_reader::http_reader|BoundsCheck|PtrMetadata(index(self.#Vec)),(self.#usize Sub 1).0,->tmp':
        'adjacent_reads(chunks) <= chunks.len() by construction (windows(2).count()+1 on a non-empty slice)',
    'R-UNTRUSTED|bitar::archive_reader::http_reader|Overflow(Sub)|len(self.#Vec),self.#usize,->tmp':
        'chunk_index only grows by one per delivered chunk while chunk_index < chunks.len()',
    'R-UNTRUSTED|bitar::archive_reader::io_reader|Overflow(Sub)|len(self.#Vec),self.#usize,->tmp':
        'chunk_index only grows by one per delivered chunk while chunk_index < chunks.len()',
    'R-UNTRUSTED|bitar::archive|index|p0.0':
        'enumerate() index of the reader stream, which yields at most one item per requested descriptor',
    'R-UNTRUSTED|bitar::chunk_index|Overflow(Sub)|len(p0.1.#Vec),len(clone(p0.1).#Vec),->tmp':
        'cd is a clone of the same location (closure parameter .1) from which offsets were only removed',
}


def run(facts, cg, reviewed=None):
    reviewed = REVIEWED if reviewed is None else reviewed
    t = Taint(facts)
    rounds = t.run()
    roots = [b.id for b in facts.bodies.values() if b.q in ENTRY_SUFFIX or
             (b.q.startswith('<') and ' as bitar::archive_reader::ArchiveReader>' in b.q)]
    region = cg.reachable(roots)
    sites = t.sinks(region)
    instances, findings = [], []
    used = set()
    seen_keys = set()
    for s in sites:
        s['key'] = facts.stabilise(s['key'])
        verdict = s['verdict']
        if verdict == 'UNGUARDED' and s.get('rkey') in reviewed:
            verdict = 'reviewed'
            used.add(s['rkey'])
            s['reason'] = reviewed[s['rkey']]
        s['final'] = verdict
        instances.append(s)
        if verdict == 'UNGUARDED' and s['key'] not in seen_keys:
            seen_keys.add(s['key'])
            findings.append({'rule': 'R-UNTRUSTED', 'key': s['key'], 'function': s['function'],
                             'what': 'untrusted value reaches %s (%s) at %s without a dominating range check' % (s['kind'], ', '.join(s['operands']), s['at'])})
    # the reviewed entries that lean on "validated when the archive is opened" are only as good as that validation:
    # it must add the stored size (archive_size) to the absolute chunk offset with a checked addition
    if any('validated not to overflow when the archive is opened' in reviewed[k] for k in used):
        from ..terms import Terms, simplify, has_field, walk
        T = Terms(facts)
        ok = False
        n_checked = 0
        for b in facts.bodies.values():
            if not b.id.startswith('bitar::archive::') or 'try_init' not in b.id:
                continue
            for bi, ct in b.calls():
                if 'q' in ct['callee'] and ct['callee']['q'].split('::')[-1] == 'checked_add' and len(ct['args']) == 2:
                    n_checked += 1
                    a0 = simplify(T.resolve_env(simplify(T.of_operand(b, ct['args'][0]))))
                    a1 = simplify(T.resolve_env(simplify(T.of_operand(b, ct['args'][1]))))
                    for x, y in ((a0, a1), (a1, a0)):
                        offs = has_field(x, 'archive_offset') or any(n[0] == 'cparam' for n in walk(x))
                        if offs and has_field(y, 'archive_size') and not has_field(y, 'source_size'):
                            ok = True
        instances.append({'rule': 'R-UNTRUSTED(precondition)', 'what': 'end offset of every descriptor validated at open', 'checked_adds_in_try_init': n_checked, 'holds': ok})
        if not ok:
            findings.append({'rule': 'R-UNTRUSTED', 'key': 'R-UNTRUSTED|bitar::archive::Archive::try_init|precondition:end-offset-validated', 'function': 'bitar::archive::Archive::try_init',
                             'what': 'the reviewed sinks `offset + size` (ChunkOffset::end, adjacent_reads) rely on try_init rejecting descriptors whose '
                                     'absolute offset plus stored size (archive_size) overflows; no such checked addition is found there any more'})
    # the reviewed sinks `counter - 1` and `chunks[counter - 1]` of the HTTP chunk reader lean on "a run has at least one chunk": the
    # value stored into the run counter where a request is built is `<count> + c` with c >= 1 (or floored with max(.., >= 1)).  A
    # run length that can come out as 0 (a request size cap that the first chunk alone exceeds) underflows there: panic on a legal
    # archive with big chunks - twice written independently as "limit the size of a range request".
    from ..terms import Terms, simplify, has_field, walk, show
    T = Terms(facts)
    n_run = 0
    for b in facts.bodies.values():
        if b.generated or not b.id.startswith('bitar::archive_reader::http_reader::'):
            continue
        if not any('q' in ct['callee'] and callee_q(ct).endswith('HttpRangeRequest::new') for _, ct in b.calls()):
            continue
        par_ = facts.original.get(b.raw.get('parent') or '')
        if (par_ is not None and par_.q.endswith('ArchiveReader>::read_at')) or ' as bitar::archive_reader::ArchiveReader>::read_at' in b.q:
            continue
        usz = set(facts.fields_by_role('bitar::archive_reader::http_reader::ChunkReader').get('usize') or [])
        for bi in b.live:
            for st in b.blocks[bi]['stmts']:
                if not (st['k'] == 'assign' and st['pl']['p'] and st['pl']['p'][-1]['k'] == 'field' and st['pl']['p'][-1].get('n') in usz):
                    continue
                vt = simplify(T.resolve_env(simplify(T.of_rvalue(b, st['rv'], 0))))
                alts = [vt]
                if isinstance(vt, tuple) and vt[0] == 'call' and vt[1] in {x.q for x in facts.bodies.values()}:
                    g = next(x for x in facts.bodies.values() if x.q == vt[1])
                    alts = []
                    for d_ in g.defs().get(0, []):
                        alts.append(simplify(T.of_call(g, d_[1], 0)) if d_[0] == 'call' else simplify(T.of_rvalue(g, d_[1]['rv'], 0)) if d_[0] == 'assign' else ('?',))
                local_call = isinstance(vt, tuple) and vt[0] == 'call' and vt[1] in {x.q for x in facts.bodies.values()}
                if not any(any(n_[0] == 'call' and n_[1].split('::')[-1] in ('count', 'len', 'position', 'fold') for n_ in walk(a_)) for a_ in alts) and not local_call:
                    continue        # not the run length (a decrement, a reset)
                if any(has_field(a_, st['pl']['p'][-1].get('n')) for a_ in alts):
                    continue        # an update of the counter from itself
                n_run += 1

                def positive(a_):
                    while isinstance(a_, tuple) and a_[0] in ('cast',):
                        a_ = a_[2]
                    if isinstance(a_, tuple) and a_[0] == 'field' and a_[2] in ('0', 0):
                        a_ = a_[1]          # the value half of a checked `a + b`
                    if isinstance(a_, tuple) and a_[0] == 'binop' and a_[1] in ('Add', 'AddWithOverflow', 'AddUnchecked'):
                        return any(isinstance(x, tuple) and x[0] == 'const' and isinstance(x[1], int) and x[1] >= 1 for x in (a_[2], a_[3]))
                    if isinstance(a_, tuple) and a_[0] == 'call' and a_[1].split('::')[-1] in ('max', 'saturating_add', 'wrapping_add') :
                        return any(isinstance(x, tuple) and x[0] == 'const' and isinstance(x[1], int) and x[1] >= 1 for x in a_[2])
                    return False
                def counter_from_one(g_, a_):
                    """a local that starts at a constant >= 1 and is only ever added to (`let mut n = 1; .. n += 1`)"""
                    if not (isinstance(a_, tuple) and a_[0] == 'var'):
                        return False
                    gb = facts.bodies.get(a_[1]) or next((x for x in facts.bodies.values() if x.id == a_[1]), None)
                    if gb is None:
                        return False
                    for l_, lc in enumerate(gb.locals):
                        if lc.get('name') == a_[-1] and len(gb.defs().get(l_, [])) > 1:
                            inits, incs, other = 0, 0, 0
                            for d2 in gb.defs()[l_]:
                                if d2[0] != 'assign':
                                    other += 1
                                    continue
                                tt = simplify(T.of_rvalue(gb, d2[1]['rv'], 0))
                                while isinstance(tt, tuple) and tt[0] == 'field' and tt[2] in ('0', 0):
                                    tt = tt[1]
                                if isinstance(tt, tuple) and tt[0] == 'const' and isinstance(tt[1], int) and tt[1] >= 1:
                                    inits += 1
                                elif isinstance(tt, tuple) and tt[0] == 'binop' and tt[1] in ('Add', 'AddWithOverflow') and \
                                        any(isinstance(x, tuple) and x[0] == 'const' and isinstance(x[1], int) and x[1] >= 0 for x in (tt[2], tt[3])):
                                    incs += 1
                                else:
                                    other += 1
                            if inits >= 1 and other == 0:
                                return True
                    return False
                ok = bool(alts) and all(positive(a_) or counter_from_one(b, a_) for a_ in alts)
                instances.append({'rule': 'R-UNTRUSTED(precondition)', 'what': 'a run of adjacent chunks has at least one chunk', 'function': b.q, 'at': st['loc'], 'holds': ok})
                if not ok:
                    findings.append({'rule': 'R-UNTRUSTED', 'key': 'R-UNTRUSTED|%s|precondition:run-length-positive' % b.q, 'function': b.q,
                                     'what': 'the reviewed sinks `run counter - 1` / `chunks[run counter - 1]` rely on a run holding at least one chunk; the run length stored at %s is '
                                             'not of the form <count> + 1 any more (%s): a count of 0 underflows there' % (st['loc'], '; '.join(show(a_)[:60] for a_ in alts))})
    if n_run < 1:
        findings.append({'rule': 'R-UNTRUSTED', 'key': 'R-UNTRUSTED|-|floor-run-length', 'function': '-', 'what': 'the store of the run length in the HTTP chunk reader was not found (cannot decide)'})
    # work whose amount the peer decides: reqwest's default redirect policy gives up after 10 hops, a custom policy has no limit
    # unless it counts the hops itself (`attempt.previous().len()`)
    for b in facts.bodies.values():
        if b.crate not in ('bita', 'bitar') or b.generated:
            continue
        for bi, ct in b.calls():
            if 'q' in ct['callee'] and callee_q(ct) in ('reqwest::redirect::Policy::custom',):
                counted = False
                for a in ct['args']:
                    for d_ in (b.defs().get(a['pl']['l'], []) if a['k'] in ('copy', 'move') else []):
                        if d_[0] == 'assign' and d_[1]['rv']['k'] == 'agg' and d_[1]['rv'].get('ak') == 'closure' and d_[1]['rv'].get('body') in facts.bodies:
                            counted = any('q' in c2['callee'] and callee_q(c2).endswith('Attempt::previous') for _, c2 in facts.bodies[d_[1]['rv']['body']].calls())
                instances.append({'rule': 'R-UNTRUSTED(peer-bounded-work)', 'function': b.q, 'at': ct['loc'], 'policy_counts_hops': counted})
                if not counted:
                    findings.append({'rule': 'R-UNTRUSTED', 'key': 'R-UNTRUSTED|%s|redirect-policy-unbounded' % b.q.split('::{closure')[0], 'function': b.q,
                                     'what': 'the custom redirect policy installed at %s never looks at the number of hops taken: a server that keeps redirecting keeps the '
                                             'command running (the default policy it replaces stops after 10)' % ct['loc']})
    # a reviewed entry that matches no site any more suppresses nothing; it is reported in the evidence, not as a violation
    # (the site may have been rewritten in a form the checker discharges by itself)
    stale = [k for k in reviewed if k not in used]
    meta = {'rule': 'R-UNTRUSTED(meta)', 'fixpoint_rounds': rounds, 'region_functions': len(region), 'entry_points': len(roots),
            'tainted_fields': sorted('%s%s.%s' % (k[0].split('::')[-1], '::' + k[1] if k[1] else '', k[2]) for k in t.TF),
            'sinks': len(sites), 'stale_review_entries': stale}
    instances.append(meta)
    if len(roots) < 8 or len(region) < 100:
        findings.append({'rule': 'R-UNTRUSTED', 'key': 'R-UNTRUSTED|floor', 'function': '-', 'what': 'entry points / region too small (cannot decide)'})
    return instances, findings
