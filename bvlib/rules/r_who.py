"""R-WHO: who-may-call / who-may-construct tables (E1)."""
from ..facts import callee_q
from ..callgraph import CallGraph

FS_PREFIX = ('std::fs::', 'tokio::fs::', 'tempfile::', 'std::os::unix::fs::', 'std::os::linux::fs::', 'std::process::',
             'fern::log_file', 'fern::log_reopen', 'fern::builders::DateBased')
# file-system APIs that only inspect
FS_READONLY = {
    'tokio::fs::file::File::open', 'std::fs::File::open', 'tokio::fs::file::File::metadata', 'std::fs::File::metadata',
    'std::fs::read', 'std::fs::read_to_string', 'tokio::fs::read::read', 'std::fs::metadata', 'tokio::fs::metadata::metadata',
    'std::path::Path::exists', 'std::os::linux::fs::MetadataExt::st_mode', '<std::fs::Metadata as std::os::linux::fs::MetadataExt>::st_mode',
}
OPEN_BUILDERS = ('tokio::fs::open_options::OpenOptions::', 'std::fs::OpenOptions::')
AW = 'tokio::io::util::async_write_ext::AsyncWriteExt::'
VERIFIED = 'bitar::chunk::VerifiedChunk'
READER_METHODS = ('bitar::archive_reader::ArchiveReader::read_at', 'bitar::archive_reader::ArchiveReader::read_chunks')
UNORDERED = ('futures_util::stream::stream::StreamExt::buffer_unordered', 'futures_util::stream::stream::StreamExt::for_each_concurrent',
             'futures_util::stream::futures_unordered::FuturesUnordered::new', 'futures_util::stream::futures_unordered::FuturesUnordered::push',
             'futures_util::stream::try_stream::TryStreamExt::try_buffer_unordered', 'futures_util::stream::try_stream::TryStreamExt::try_for_each_concurrent',
             'futures_util::stream::select_all::select_all', 'futures_util::stream::stream::StreamExt::flat_map_unordered')
BUFFERED = 'futures_util::stream::stream::StreamExt::buffered'
SHARED_STATE_PREFIX = ('core::cell::', 'core::sync::atomic::', 'std::sync::poison::', 'std::sync::mutex', 'std::sync::rwlock', 'std::sync::mpsc', 'tokio::sync::', 'parking_lot::',
                       'std::sync::once_lock', 'std::sync::lazy_lock')
UNORDERED_TYPES = ('futures_util::stream::futures_unordered::FuturesUnordered', 'tokio::task::join_set::JoinSet', 'futures_util::stream::select_all::SelectAll',
                   'futures_util::stream::stream::buffer_unordered::BufferUnordered')


def short(b):
    return b.q


def fs_effects(facts, cg, entry, minus=()):
    """all file-system API call sites reachable from `entry` (crate-local call graph), not counting what is reachable from `minus`"""
    reach = cg.reachable([entry])
    if minus:
        reach = reach - cg.reachable(list(minus)) | {entry}
    sites = []
    for bid in sorted(reach):
        b = facts.bodies[bid]
        for bi, t in b.calls():
            if 'q' not in t['callee']:
                continue
            q = callee_q(t)
            gq = t['callee']['q']
            if '{closure' in q:
                continue
            if q.startswith(FS_PREFIX) or gq.startswith(FS_PREFIX):
                kind = 'read-only' if q in FS_READONLY else ('open-builder' if q.startswith(OPEN_BUILDERS) else 'MUTATING')
                sites.append({'api': q, 'in': b.q, 'at': t['loc'], 'kind': kind})
    return reach, sites


def verified_constructors(facts):
    out = []
    for b in facts.bodies.values():
        for bi in b.live:
            for st in b.blocks[bi]['stmts']:
                if st['k'] == 'assign' and st['rv']['k'] == 'agg' and st['rv'].get('adt') == VERIFIED and not st.get('exp'):
                    out.append({'in': b.q, 'at': st['loc']})
    return out


def inner_writers(facts):
    """functions that call a write API on field CloneOutput::inner"""
    out = []
    for b in facts.bodies.values():
        for bi, t in b.calls():
            if 'q' not in t['callee'] or not t['args']:
                continue
            gq = t['callee']['q']
            if gq.startswith(AW) and gq[len(AW):].startswith('write') or gq in ('tokio::fs::file::File::set_len',):
                base = b.base_of(t['args'][0])
                path = [x[1] for x in base[1]]
                adts = [x[0] for x in base[1]]
                outf = (facts.fields_by_role('bitar::clone_output::CloneOutput').get('param') or [None])[0]
                if any(x[0] == 'bitar::clone_output::CloneOutput' and x[1] == outf for x in base[1]):
                    out.append({'api': gq, 'in': b.q, 'at': t['loc']})
    return out


def reader_calls(facts, cg):
    out = []
    for (b, bi, t) in cg.calls_to(*READER_METHODS):
        # skip the trait impl bodies' own forwarding and test code
        out.append({'api': t['callee']['q'].split('::')[-1], 'in': b.q, 'at': t['loc'], 'in_loop': in_loop(b, bi)})
    return out


def in_loop(b, bi):
    """is block bi on a CFG cycle?"""
    from ..facts import succs
    seen = set()
    w = [s for s in succs(b.blocks[bi]['term']) if not b.blocks[s].get('cleanup')]
    while w:
        x = w.pop()
        if x == bi:
            return True
        if x in seen:
            continue
        seen.add(x)
        w.extend(s for s in succs(b.blocks[x]['term']) if not b.blocks[s].get('cleanup'))
    return False


def combinators(facts, cg, writer_bodies):
    """concurrency combinators used inside the writer functions (and their closures)"""
    out = {'buffered': [], 'unordered': []}
    reach = set()
    for w in writer_bodies:
        reach |= cg.reachable([w]) & {x for x in facts.bodies if x.startswith(w.split('::{closure')[0])}
    for bid in sorted(reach):
        b = facts.bodies[bid]
        for bi, t in b.calls():
            if 'q' not in t['callee']:
                continue
            gq = t['callee']['q']
            if gq == BUFFERED:
                out['buffered'].append({'in': b.q, 'at': t['loc']})
            if gq in UNORDERED:
                out['unordered'].append({'api': gq, 'in': b.q, 'at': t['loc']})
        # ... or a value of a completion-order collection, however it was built (collect(), extend())
        for l, loc_ in enumerate(b.locals):
            if b.lty(l).get('adt') in UNORDERED_TYPES and not any(u['in'] == b.q and u['api'] == b.lty(l)['adt'] for u in out['unordered']):
                out['unordered'].append({'api': b.lty(l)['adt'], 'in': b.q, 'at': b.raw.get('span') or b.q})
            # ... or state with interior mutability: a cell / atomic / lock is there to be written from one place and read from
            # another - a stage in front of an ordered buffer that reads what the loop behind it writes (an "adaptive" decision
            # fed back from the results) sees a value that depends on how far the consumer has got, i.e. on --buffered-chunks and timing
            adt_ = b.lty(l).get('adt') or ''
            if adt_.startswith(SHARED_STATE_PREFIX) and not any(u['in'] == b.q and u['api'] == 'shared-state:' + adt_.split('::')[-1] for u in out['unordered']):
                out['unordered'].append({'api': 'shared-state:' + adt_.split('::')[-1], 'in': b.q, 'at': b.raw.get('span') or b.q})
    return out


def descriptor_builders(facts, adt='bitar::chunk_dictionary::ChunkDescriptor'):
    out = []
    for b in facts.bodies.values():
        if b.q.startswith('<'):
            continue
        for bi in b.live:
            for st in b.blocks[bi]['stmts']:
                if st['k'] == 'assign' and st['rv']['k'] == 'agg' and st['rv'].get('adt') == adt and not st.get('exp'):
                    out.append(b.id)
    return sorted(set(out))
