"""R-DICT-WIRING: both archive writers against the table derived from header.rs / chunk_dictionary.proto,
and against each other (sibling cross-check)."""
from ..facts import callee_q, callee_def, succs
from ..terms import Terms, simplify, has_call, has_field, show, walk, calls_in, freeze
from ..typestate import coroutine_of
from ..paths import Explorer, Rule
from .r_readers import _all_paths_hit

PARAMS = 'bitar::chunk_dictionary::ChunkerParameters'
DICT = 'bitar::chunk_dictionary::ChunkDictionary'
DESC = 'bitar::chunk_dictionary::ChunkDescriptor'
SE = 'futures_util::stream::stream::StreamExt::'
NEW_CHUNKER = 'bitar::chunker::config::Config::new_chunker'
ALGO = {'BuzHash': 0, 'RollSum': 1, 'FixedSize': 2}
ORDER_PRESERVING = ('map', 'buffered', 'filter_map', 'filter', 'then', 'enumerate', 'inspect', 'fuse', 'boxed', 'boxed_local', 'peekable', 'scan', 'map_while', 'take_while', 'skip_while', 'zip', 'chain', 'and_then', 'map_ok', 'map_err', 'err_into', 'try_buffered')
FOLLOW = ('::iter', '::to_vec', '::finalize', '::into_iter', '::iter_mut', '::collect', '::map', '::cloned', '::copied', '::finalize_reset')


def aggs(facts, adt):
    for b in facts.bodies.values():
        if b.generated:
            continue
        for bi in b.live:
            for si, st in enumerate(b.blocks[bi]['stmts']):
                if st['k'] == 'assign' and st['rv']['k'] == 'agg' and st['rv'].get('adt') == adt:
                    yield b, bi, si, st


# chunk_dictionary.proto: enum ChunkingAlgorithm { BUZHASH = 0; ROLLSUM = 1; FIXED_SIZE = 2; }
ENUM_VALUE = {'Buzhash': 0, 'Rollsum': 1, 'FixedSize': 2}


def owner_family(facts, pid):
    """a function body and all closures nested in it (by parent chain)"""
    root = pid.split('::{closure')[0]
    out = []
    for b in facts.bodies.values():
        x = b
        d = 0
        while x is not None and d < 12:
            if x.id == pid or x.id == root:
                out.append(b.id)
                break
            par = x.raw.get('parent')
            x = facts.bodies.get(par) or facts.original.get(par) if par else None
            d += 1
    return sorted(set(out))


def direct_calls_of(facts, T, closure):
    """[(calling body, [argument terms])] for direct calls `f(a, b)` of a local closure"""
    out = []
    for pb in facts.bodies.values():
        if pb.crate != closure.crate:
            continue
        for bi, t in pb.calls():
            c = t['callee']
            if c.get('rdef') == closure.id and c.get('q', '').startswith('core::ops::function::Fn') and len(t['args']) == 2:
                tup = simplify(T.resolve_env(simplify(T.of_operand(pb, t['args'][1]))))
                if tup[0] == 'tuple':
                    out.append((pb, list(tup[1])))
    return out


def subst_cparams(term, body_id, args):
    if isinstance(term, tuple):
        if term[0] == 'cparam' and term[1] == body_id and isinstance(term[2], int) and term[2] < len(args):
            return args[term[2]]
        return tuple(subst_cparams(x, body_id, args) for x in term)
    if isinstance(term, list):
        return [subst_cparams(x, body_id, args) for x in term]
    if isinstance(term, dict):
        return {k: subst_cparams(v, body_id, args) for k, v in term.items()}
    return term


def const_value(t):
    """evaluate a constant integer term (enum discriminant casts show up as (k Add 0) as i32)"""
    if isinstance(t, tuple):
        if t[0] == 'const' and isinstance(t[1], int):
            return t[1]
        if t[0] == 'cast':
            return const_value(t[2])
        if t[0] == 'discr' and isinstance(t[1], tuple) and t[1][0] == 'agg' and t[1][1].endswith('ChunkingAlgorithm'):
            return ENUM_VALUE.get(t[1][2])
        if t[0] == 'binop' and t[1] == 'Add':
            a, b_ = const_value(t[2]), const_value(t[3])
            if a is not None and b_ is not None:
                return a + b_
    return None


def variant_of(t):
    for n in walk(t):
        if n[0] == 'variant' and n[1] in ALGO:
            return n[1]
    return None


def root_local(b, op):
    """base local an operand (through refs, copies, transparent calls) refers to"""
    if op['k'] not in ('copy', 'move'):
        return None
    seen = 0
    cur = op
    while seen < 12:
        seen += 1
        base = b.base_of(cur)
        l = base[0]
        ds = b.defs().get(l, [])
        whole = [d for d in ds if d[0] != 'assign' or not d[1]['pl']['p']]
        if len(ds) == 1 and ds[0][0] == 'assign' and ds[0][1]['rv']['k'] in ('use', 'cast') and ds[0][1]['rv']['op']['k'] in ('copy', 'move') \
                and not b.locals[l]['user'] and not base[1]:
            cur = ds[0][1]['rv']['op']
            continue
        if len(ds) == 1 and ds[0][0] == 'call' and 'q' in ds[0][1]['callee'] and not base[1]:
            from ..terms import TRANSPARENT_CALLS
            t = ds[0][1]
            if ((t['callee']['q'] in TRANSPARENT_CALLS and not b.locals[l]['user']) or callee_q(t).endswith(FOLLOW)) and t['args']:
                cur = t['args'][0]
                continue
        return (l, tuple(x[1] for x in base[1]))
    return None


def mutations(facts, T, b, local):
    """[(body, kind, term, loc)] effects on `local`: its assignments, mutator calls, and the same inside closures capturing it"""
    out = []
    for d in b.defs().get(local, []):
        if d[0] == 'assign' and not d[1]['pl']['p']:
            out.append((b, 'assign', simplify(T.of_rvalue(b, d[1]['rv'], 0)), d[1]['loc']))
    for bi, t in b.calls():
        if t['args'] and t['args'][0]['k'] in ('copy', 'move'):
            base = b.base_of(t['args'][0])
            ty0 = b.lty(t['args'][0]['pl']['l'])
            if base[0] == local and not base[1] and ty0.get('k') == 'ref' and ty0.get('mut') and 'q' in t['callee']:
                out.append((b, 'call:' + callee_q(t), [simplify(T.of_operand(b, a)) for a in t['args'][1:]], t['loc']))
    # closures capturing the local by reference
    for bi in b.live:
        for st in b.blocks[bi]['stmts']:
            if st['k'] == 'assign' and st['rv']['k'] == 'agg' and st['rv']['ak'] in ('closure', 'coroutine'):
                cb = facts.bodies.get(st['rv']['body'])
                if not cb:
                    continue
                for i, o in enumerate(st['rv']['ops']):
                    if o['k'] in ('copy', 'move'):
                        base = b.base_of(o)
                        if base[0] == local and not base[1]:
                            out.extend(_closure_effects(facts, T, cb, i))
    return out


def _closure_effects(facts, T, cb, upvar):
    out = []
    def is_up(base):
        return base[0] == 1 and base[1][:1] and base[1][0][1] == upvar
    for bi in cb.live:
        for st in cb.blocks[bi]['stmts']:
            if st['k'] == 'assign' and st['pl']['p']:
                base = cb.base_of_place(st['pl'])
                if is_up(base):
                    out.append((cb, 'assign', simplify(T.of_rvalue(cb, st['rv'], 0)), st['loc']))
        t = cb.blocks[bi]['term']
        if t['k'] == 'call' and t['args'] and t['args'][0]['k'] in ('copy', 'move') and 'q' in t['callee']:
            base = cb.base_of(t['args'][0])
            if is_up(base):
                out.append((cb, 'call:' + callee_q(t), [simplify(T.of_operand(cb, a)) for a in t['args'][1:]], t['loc']))
    return out


def pipeline(facts, T, b):
    """sequence of stream combinators from new_chunker to the consuming loop: [(method, closure body id or None)]"""
    seq = []
    cur = None
    for bi, t in b.calls():
        if 'q' in t['callee'] and callee_q(t) == NEW_CHUNKER:
            cur = t['dest']['l']
    if cur is None:
        return seq
    find = b.alias_classes()
    progressed = True
    while progressed:
        progressed = False
        for bi, t in b.calls():
            if 'q' not in t['callee'] or not t['callee']['q'].startswith((SE, 'futures_util::stream::try_stream::TryStreamExt::')):
                continue
            if not t['args'] or t['args'][0]['k'] not in ('copy', 'move'):
                continue
            if find(t['args'][0]['pl']['l']) != find(cur) or t['args'][0]['pl']['p']:
                continue
            m = t['callee']['q'].split('::')[-1]
            if m in ('next', 'poll_next_unpin'):
                continue
            clo = None
            for a in t['args'][1:]:
                if a['k'] in ('copy', 'move') and b.lty(a['pl']['l']).get('k') == 'closure':
                    clo = b.lty(a['pl']['l']).get('body')
            seq.append((m, clo, t['loc']))
            cur = t['dest']['l']
            progressed = True
            break
    return seq


def _full_stage_ids(facts, seq):
    """closure bodies of the stages up to and including the de-duplication stage (the one that pushes the order)"""
    out = []
    for m, c, loc in seq:
        if not c:
            continue
        out.append(c)
        if any(q.endswith('Vec::push') for q in closure_calls(facts, c)):
            break
    return out


def _on_all_paths(facts, cb_id, suffixes):
    from .r_readers import _all_paths_hit
    cb = facts.bodies.get(cb_id)
    if not cb:
        return False
    blocks = {bi for bi, t in cb.calls() if 'q' in t['callee'] and callee_q(t).endswith(suffixes)}
    return bool(blocks) and _all_paths_hit(cb, 0, blocks)


def closure_calls(facts, cb_id, depth=0):
    """qualified names called in a closure body and in closures nested in it"""
    out = []
    cb = facts.bodies.get(cb_id)
    if not cb or depth > 3:
        return out
    for bi, t in cb.calls():
        if 'q' in t['callee']:
            out.append(callee_q(t))
    for bi in cb.live:
        for st in cb.blocks[bi]['stmts']:
            if st['k'] == 'assign' and st['rv']['k'] == 'agg' and st['rv']['ak'] in ('closure', 'coroutine'):
                out.extend(closure_calls(facts, st['rv']['body'], depth + 1))
    return out


def tuple_return_component(facts, T, b, term):
    """resolve ('field', ('var', body, name), idx) where var holds the Ok payload of a crate-local async fn returning a tuple:
    returns (callee coroutine body, operand of the idx-th tuple component) list"""
    out = []
    if not (isinstance(term, tuple) and term[0] == 'field' and isinstance(term[1], tuple) and term[1][0] in ('var', 'field', 'variant', 'try', 'await', 'call')):
        return out
    if term[1][0] != 'var':
        # direct: (try(await(f(..))) as Continue).0.<idx or name>
        return _components_of_calls(facts, T, term[1], term[2])
    name = term[1][2]
    idx = term[2]
    l = None
    for i in range(len(b.locals)):
        if b.name(i) == name:
            l = i
    if l is None:
        return out
    for d in b.defs().get(l, []):
        if d[0] != 'assign':
            continue
        t = simplify(T.of_rvalue(b, d[1]['rv'], 0))
        for n in walk(t):
            if n[0] == 'call':
                for g in facts.bodies.values():
                    if g.q == n[1]:
                        out.extend(_ok_payload_component(facts, g, idx))
    return out


def _ok_payload_component(facts, g, idx):
    """operands of component `idx` (tuple index or struct field name) of the Ok payload returned by crate-local fn g"""
    out = []
    cb, pm = coroutine_of(facts, g)
    body = facts.bodies[cb] if cb else g
    for bi in body.live:
        for st in body.blocks[bi]['stmts']:
            if st['k'] == 'assign' and not st['pl']['p'] and st['pl']['l'] == 0 and st['rv']['k'] == 'agg' and st['rv'].get('vname') == 'Ok':
                op = st['rv']['ops'][0]
                if op['k'] in ('copy', 'move'):
                    for dd in body.defs().get(op['pl']['l'], []):
                        if dd[0] == 'assign' and dd[1]['rv']['k'] == 'agg':
                            rv = dd[1]['rv']
                            if rv['ak'] == 'tuple' and isinstance(idx, int) and idx < len(rv['ops']):
                                out.append((body, rv['ops'][idx]))
                            elif rv['ak'] == 'adt' and idx in rv.get('fields', []):
                                out.append((body, rv['ops'][rv['fields'].index(idx)]))
    return out


def _components_of_calls(facts, T, term, idx):
    out = []
    for n in walk(term):
        if n[0] == 'call':
            for g in facts.bodies.values():
                if g.q == n[1]:
                    out.extend(_ok_payload_component(facts, g, idx))
    return out


def run(facts, cg):
    T = Terms(facts)
    instances, findings = [], []

    def finding(where, what, detail):
        key = 'R-DICT-WIRING|%s|%s' % (where, what)
        if key not in {x['key'] for x in findings}:
            findings.append({'rule': 'R-DICT-WIRING', 'key': key, 'function': where, 'what': detail})

    # ---------------------------------------------------------------- chunker parameters per Config variant
    per_writer = {}
    contexts = []
    for b, bi, si, st in aggs(facts, PARAMS):
        d0 = {n: simplify(T.resolve_env(simplify(T.of_operand(b, o)))) for n, o in zip(st['rv']['fields'], st['rv']['ops'])}
        sites = direct_calls_of(facts, T, b) if b.raw['kind'] == 'Closure' and any(n_[0] == 'cparam' for t_ in d0.values() for n_ in walk(t_)) else []
        if sites:
            # one aggregate in a local closure that is called once per configuration variant: evaluate it per call
            for (pb, args) in sites:
                contexts.append((pb, bi, si, st, {k: simplify(subst_cparams(v, b.id, args)) for k, v in d0.items()}))
        else:
            contexts.append((b, bi, si, st, d0))
    for b, bi, si, st, d in contexts:
        var = None
        for t in d.values():
            var = var or variant_of(t)
        row = {}
        ok = True
        def src_field(t, fieldname):
            return has_field(t, fieldname) and variant_of(t) == var
        if var in ('BuzHash', 'RollSum'):
            checks = {
                'chunk_filter_bits': has_call(d['chunk_filter_bits'], 'FilterBits::bits') and src_field(d['chunk_filter_bits'], 'filter_bits'),
                'min_chunk_size': src_field(d['min_chunk_size'], 'min_chunk_size'),
                'max_chunk_size': src_field(d['max_chunk_size'], 'max_chunk_size'),
                'rolling_hash_window_size': src_field(d['rolling_hash_window_size'], 'window_size'),
            }
        elif var == 'FixedSize':
            checks = {
                'chunk_filter_bits': const_value(d['chunk_filter_bits']) == 0,
                'min_chunk_size': const_value(d['min_chunk_size']) == 0,
                'rolling_hash_window_size': const_value(d['rolling_hash_window_size']) == 0,
                'max_chunk_size': variant_of(d['max_chunk_size']) == 'FixedSize' and not calls_in(d['max_chunk_size']),
            }
        else:
            checks = {}
            finding(b.q, 'params-variant-unknown@%s' % st['loc'].split(':')[1], 'could not tell which chunker configuration variant a ChunkerParameters value describes')
        checks['chunking_algorithm'] = const_value(d['chunking_algorithm']) == ALGO.get(var)
        for fld, good in checks.items():
            if not good:
                finding(b.q, 'params:%s:%s' % (var, fld), 'ChunkerParameters.%s recorded for %s is %s' % (fld, var, show(d[fld])[:100]))
        per_writer.setdefault(b.q, {})[var or '?'] = {k: _sig(v) for k, v in d.items() if k != 'chunk_hash_length'}
        per_writer[b.q].setdefault('#hash_len', set()).add(freeze(_norm(d['chunk_hash_length'])))
        instances.append({'rule': 'R-DICT-WIRING(params)', 'function': b.q, 'variant': var, 'at': st['loc'], 'fields': {k: show(v)[:80] for k, v in d.items()}})
    for w, tab in per_writer.items():
        if {k for k in tab if not k.startswith('#')} != set(ALGO):
            finding(w, 'params-variants', 'writer does not describe all three chunker configurations: %s' % sorted(k for k in tab if not k.startswith('#')))
        if len(tab.get('#hash_len', ())) != 1:
            finding(w, 'params-hash-length', 'chunk_hash_length differs between configuration variants')
    ws = sorted(per_writer)
    if len(ws) == 2:
        a, b_ = per_writer[ws[0]], per_writer[ws[1]]
        for var in ALGO:
            if var in a and var in b_ and freeze(a[var]) != freeze(b_[var]):
                finding('-', 'sibling-params:' + var, 'the two writers record different chunker parameters for %s' % var)
    else:
        finding('-', 'floor-params', 'expected 2 writers building ChunkerParameters, found %d (cannot decide)' % len(ws))

    # ---------------------------------------------------------------- per-writer: descriptor, accumulators, pipeline, layout
    desc_bodies = sorted({b.id for b, _, _, _ in aggs(facts, DESC)})
    dict_sites = list(aggs(facts, DICT))
    shapes = {}
    for pid in desc_bodies:
        pb = facts.bodies[pid]
        # -------- descriptor: checksum is the chunk hash truncated to the recorded hash length
        for b, bi, si, st in aggs(facts, DESC):
            if b.id != pid:
                continue
            d = dict(zip(st['rv']['fields'], st['rv']['ops']))
            tc = simplify(T.of_operand(b, d['checksum']))
            ts = simplify(T.of_operand(b, d['source_size']))
            if not (has_call(tc, 'HashSum::to_vec') and (has_call(tc, 'VerifiedChunk::hash') or has_call(tc, 'VerifiedChunk::into_parts'))):
                finding(b.q, 'descriptor-checksum', 'descriptor checksum is not the verified chunk hash (%s)' % show(tc)[:100])
            if not (has_call(ts, 'VerifiedChunk::len') or has_call(ts, 'Chunk::len')):
                finding(b.q, 'descriptor-source-size', 'descriptor source_size is not the chunk length (%s)' % show(ts)[:100])
            truncs = [(tbi, tt) for tbi, tt in b.calls() if 'q' in tt['callee'] and callee_q(tt) == 'bitar::hashsum::HashSum::truncate']
            hroot = root_local(b, d['checksum'])
            lens = []
            for tbi, tt in truncs:
                r = b.base_of(tt['args'][0])
                lens.append((r[0], simplify(T.resolve_env(simplify(T.of_operand(b, tt['args'][1]))))))
            good = [x for x in lens if hroot and x[0] == hroot[0]]
            instances.append({'rule': 'R-DICT-WIRING(descriptor)', 'function': b.q, 'checksum': show(tc)[:90], 'truncate_len': [show(x[1]) for x in good]})
            if not good:
                finding(b.q, 'descriptor-hash-not-truncated', 'the stored chunk hash is not truncated to the hash length option')
            else:
                shapes.setdefault(pb.q, {})['trunc_len'] = _norm(_resolve_param(facts, T, cg, good[0][1]))
        # -------- pipeline shape
        seq = pipeline(facts, T, pb)
        shape = [m for m, _, _ in seq]
        instances.append({'rule': 'R-DICT-WIRING(pipeline)', 'function': pb.q, 'stages': [(m, loc) for m, c, loc in seq]})
        # every combinator between the chunker and the write loop preserves order; stages are found by what they do
        bad = [m for m in shape if m not in ORDER_PRESERVING]
        if bad:
            finding(pb.q, 'pipeline-order', 'the compress pipeline uses %s, which does not preserve source order' % bad)
            continue
        clos = [(i, c) for i, (m, c, loc) in enumerate(seq) if c]
        def stage_with(pred):
            for i, c in clos:
                if any(pred(q) for q in closure_calls(facts, c)):
                    return i, c
            return None, None
        i_hash, c0 = stage_with(lambda q: q.endswith('Chunk::verify'))
        i_dedup, c1 = stage_with(lambda q: q.endswith('Vec::push'))
        i_comp, c2 = stage_with(lambda q: q.endswith('Chunk::compress'))
        if None in (i_hash, i_dedup, i_comp) or not (i_hash <= i_dedup < i_comp):
            finding(pb.q, 'pipeline-shape', 'cannot find hash -> de-duplicate -> compress stages in that order in %s' % shape)
            continue
        if 'buffered' not in shape:
            finding(pb.q, 'pipeline-shape', 'no buffered() stage: cannot decide the ordering obligations')
            continue
        # no filtering stage before the de-duplication: every stage up to it sees every chunk once, in order
        early_filters = [m for m, c, loc in seq[:i_dedup] if m in ('filter', 'filter_map', 'skip', 'skip_while', 'take', 'take_while', 'step_by')]
        if early_filters:
            finding(pb.q, 'pipeline-early-filter', 'chunks are dropped (%s) before the stage that records the rebuild order' % early_filters)
        full = [c for i, c in clos if i <= i_dedup]
        calls_full = [q for c in full if c != c1 for q in closure_calls(facts, c)]
        if not (any(q.endswith('::update') for q in calls_full) or _on_all_paths(facts, c1, ('::update',))):
            finding(pb.q, 'no-hash-in-full-stage', 'the source checksum is not updated in a stage that sees every chunk once, in order')
        # the de-duplication table is keyed by the chunk's own, untruncated hash
        cbd = facts.bodies[c1]
        keyed = []
        for bi, t in cbd.calls():
            if 'q' in t['callee'] and callee_q(t).startswith('std::collections::hash::map::HashMap::') and callee_q(t).split('::')[-1] in ('insert', 'contains_key', 'get', 'entry') and len(t['args']) > 1:
                keyed.append(simplify(T.of_operand(cbd, t['args'][1])))
        trunc_in_dedup = any('q' in t['callee'] and callee_q(t) == 'bitar::hashsum::HashSum::truncate' for bi, t in cbd.calls())
        instances.append({'rule': 'R-DICT-WIRING(dedup-key)', 'function': pb.q, 'keys': [show(k)[:70] for k in keyed], 'truncated_in_stage': trunc_in_dedup})
        if not keyed or not all(has_call(k, 'VerifiedChunk::hash') for k in keyed) or trunc_in_dedup:
            finding(pb.q, 'dedup-key', 'the de-duplication table is not keyed by the full chunk hash: distinct chunks with equal truncated hashes would be merged')
        # order.push happens on every path of the dedup closure
        cb1 = facts.bodies[c1]
        pushes = {bi for bi, t in cb1.calls() if 'q' in t['callee'] and callee_q(t).endswith('Vec::push')}
        if pushes and not _all_paths_hit(cb1, 0, pushes):
            finding(pb.q, 'order-push-not-on-all-paths', 'some source chunks are not recorded in the rebuild order')
        # the accumulators updated in a full stage before the de-duplication decision
        eff = []
        for c in full:
            if c == c1:
                continue
            for i in range(8):
                eff.extend(_closure_effects(facts, T, facts.bodies[c], i))
        size_upd = [e for e in eff if e[1] == 'assign' and (has_call(e[2], 'Chunk::len') or has_call(e[2], '::len'))]
        if not size_upd:
            eff1 = []
            for i in range(8):
                eff1.extend(_closure_effects(facts, T, cb1, i))
            blocks1 = set()
            for e in eff1:
                if e[1] == 'assign' and has_call(e[2], '::len'):
                    blocks1 |= {bi for bi in cb1.live for st_ in cb1.blocks[bi]['stmts'] if st_.get('loc') == e[3]}
            if not (blocks1 and _all_paths_hit(cb1, 0, blocks1)):
                finding(pb.q, 'no-size-in-full-stage', 'the source size is not accumulated in a stage that sees every chunk once')
        shapes.setdefault(pb.q, {})['pipeline'] = shape

    # -------- dictionary aggregate
    for b, bi, si, st in dict_sites:
        d = {n: simplify(T.resolve_env(simplify(T.of_operand(b, o)))) for n, o in zip(st['rv']['fields'], st['rv']['ops'])}
        inst = {'rule': 'R-DICT-WIRING(dictionary)', 'function': b.q, 'at': st['loc'], 'fields': {k: show(v)[:90] for k, v in d.items()}}
        instances.append(inst)
        if not has_call(d['application_version'], 'to_string') or 'PKG_VERSION' not in show(d['application_version']):
            finding(b.q, 'dict-version', 'application_version is not the crate version constant')
        param_builders = {b_.id for b_, _, _, _ in aggs(facts, PARAMS)}
        if has_call(d['chunker_params'], 'Default::default') or has_call(d['chunker_params'], '::default') or \
                not any(n[0] == 'var' or (n[0] == 'agg' and n[1] == PARAMS) or (n[0] == 'call' and n[1] in param_builders)
                        for n in walk(d['chunker_params'])):
            finding(b.q, 'dict-params', 'chunker_params does not come from the ChunkerParameters value built above')
        if not has_field(d['chunk_compression'], 'compression'):
            finding(b.q, 'dict-compression', 'chunk_compression is not derived from the compression option (%s)' % show(d['chunk_compression'])[:80])
        else:
            from .r_readerwiring import altered
            why = altered(d['chunk_compression'])
            if why:
                finding(b.q, 'dict-compression', 'the compression recorded in the dictionary is not the requested one as it is: it passes through %s (%s) - '
                        'the archive then says something else than what was asked for' % (why, show(d['chunk_compression'])[:80]))
        # source size / checksum / order / descriptors: resolve to the locals of the pipeline body and check their updates
        for fld, want_call, what in (('source_total_size', None, 'size'), ('source_checksum', 'finalize', 'checksum'),
                                     ('rebuild_order', 'collect', 'order'), ('chunk_descriptors', None, 'descriptors')):
            roots = []
            comps = []
            for n in walk(d[fld]):
                comps.extend(tuple_return_component(facts, T, b, n))
            if comps:
                for body2, op in comps:
                    r = root_local(body2, op)
                    if r:
                        roots.append((body2, r[0]))
            else:
                o = dict(zip(st['rv']['fields'], st['rv']['ops']))[fld]
                r = root_local(b, o)
                # look through collect(map(iter(X))) etc.
                if r:
                    roots.append((b, r[0]))
            inst.setdefault('roots', {})[fld] = [(rb.q.split('::')[-2] if '::' in rb.q else rb.q, rb.name(rl)) for rb, rl in roots]
            if not roots:
                finding(b.q, 'dict-%s-root' % what, 'cannot trace %s back to the compress pipeline (%s)' % (fld, show(d[fld])[:80]))
                continue
            for rb, rl in roots:
                muts = mutations(facts, T, rb, rl)
                kinds = [m[1] for m in muts]
                if what == 'size':
                    if not any(m[1] == 'assign' and (has_call(m[2], 'Chunk::len') or has_call(m[2], '::len')) for m in muts):
                        finding(b.q, 'dict-size-not-accumulated', 'source_total_size (%s) is never increased by a chunk length' % rb.name(rl))
                    # and it is accumulated in the first stage closure of that pipeline
                    seq = pipeline(facts, T, rb)
                    if len(seq) >= 3 and seq[0][1]:
                        full_ids = _full_stage_ids(facts, seq)
                        inside = [m for m in muts if m[0].id in full_ids and m[1] == 'assign']
                        if not inside:
                            finding(b.q, 'dict-size-wrong-stage', 'source_total_size is not accumulated in a pipeline stage that sees every chunk')
                if what == 'checksum':
                    if not any(m[1].endswith('::update') for m in muts):
                        finding(b.q, 'dict-checksum-not-updated', 'the source hasher (%s) is never fed' % rb.name(rl))
                    seq = pipeline(facts, T, rb)
                    if len(seq) >= 3 and seq[0][1] and not [m for m in muts if m[0].id in _full_stage_ids(facts, seq) and m[1].endswith('::update')]:
                        finding(b.q, 'dict-checksum-wrong-stage', 'the source checksum is not fed in a pipeline stage that sees every chunk in order')
                if what == 'order':
                    if not any(m[1].endswith('Vec::push') for m in muts):
                        finding(b.q, 'dict-order-not-pushed', 'rebuild_order (%s) is not the vector filled in the pipeline' % rb.name(rl))
                if what == 'descriptors':
                    ok = False
                    for m in muts:
                        if m[1].endswith('Vec::push') and any(isinstance(a, tuple) and any(n[0] == 'agg' and n[1] == DESC for n in walk(a)) for a in m[2]):
                            ok = True
                    if not ok:
                        finding(b.q, 'dict-descriptors', 'chunk_descriptors (%s) is not the vector the descriptors are pushed to' % rb.name(rl))
        # layout: header::build(&dict, None), header written before the chunk data is appended
        builds = [(hbi, t) for hbi, t in b.calls() if 'q' in t['callee'] and callee_q(t) == 'bitar::header::build']
        if not builds:
            finding(b.q, 'layout-no-header-build', 'the header is not produced by header::build')
        for hbi, t in builds:
            a1 = simplify(T.of_operand(b, t['args'][1]))
            if not (isinstance(a1, tuple) and a1[0] == 'agg' and a1[2] == 'None'):
                finding(b.q, 'layout-offset-override', 'header::build is given an explicit chunk data offset (%s) instead of the header length' % show(a1)[:60])
            dom = b.dominators()
            copies = [cbi for cbi, ct in b.calls() if 'q' in ct['callee'] and callee_q(ct) in ('std::io::copy::copy', 'tokio::io::util::copy::copy')]
            writes = [wbi for wbi, wt in b.calls() if 'q' in wt['callee'] and callee_q(wt).endswith('::write_all') and len(wt['args']) > 1
                      and has_call(simplify(T.of_operand(b, wt['args'][1])), 'header::build')]
            inst['layout'] = {'header_writes': len(writes), 'data_copies': len(copies)}
            if not writes or not copies:
                finding(b.q, 'layout-missing', 'header write / chunk data copy not found in the writer')
            for cbi in copies:
                if not any(w in dom.get(cbi, ()) for w in writes):
                    finding(b.q, 'layout-order', 'chunk data is appended on a path that has not written the header first')
    if len(dict_sites) < 2 or len(desc_bodies) < 2:
        finding('-', 'floor', 'expected 2 writers (descriptor loop + dictionary), found %d/%d (cannot decide)' % (len(desc_bodies), len(dict_sites)))
    # recorded chunk_hash_length is the length the stored hashes are truncated to
    trunc_terms = {freeze(v['trunc_len']) for v in shapes.values() if 'trunc_len' in v}
    rec_terms = set()
    for w, tab in per_writer.items():
        rec_terms |= {_strip_cast(x) for x in tab.get('#hash_len', ())}
    trunc_terms = {_strip_cast(x) for x in trunc_terms}
    instances.append({'rule': 'R-DICT-WIRING(hash-length)', 'truncate_terms': [str(x)[:80] for x in trunc_terms], 'recorded_terms': [str(x)[:80] for x in rec_terms]})
    if trunc_terms and rec_terms and trunc_terms != rec_terms:
        finding('-', 'hash-length-mismatch', 'the chunk_hash_length recorded in the dictionary is not the length the stored hashes are truncated to')
    # (the two pipelines need not have the same stages: each is checked against the obligations on its own)
    # ---------------------------------------------------------------- the index a new unique chunk gets
    # rebuild_order refers to descriptors by position: the index recorded for a chunk seen for the first time is the number of
    # unique chunks seen before it - a counter advanced exactly when the table grows, or the size of the table itself - never the
    # number of source chunks (which runs ahead as soon as one chunk repeats)
    n_ins = 0
    for pid in desc_bodies:
        fam = owner_family(facts, pid)
        for cid in fam:
            c = facts.bodies[cid]
            if c.raw['kind'] != 'Closure':
                continue
            for bi, t in c.calls():
                if 'q' not in t['callee']:
                    continue
                q = callee_q(t)
                val = None
                if q.endswith('HashMap::insert') and len(t['args']) >= 3:
                    val = t['args'][2]
                elif q.endswith(('Entry::or_insert', 'Entry::or_insert_with', 'VacantEntry::insert', 'VacantEntry::insert_entry')) and len(t['args']) >= 2:
                    val = t['args'][1]
                if val is None:
                    continue
                vty = c.lty(val['pl']['l']) if val['k'] in ('copy', 'move') else {}
                if vty.get('k') not in ('uint', 'int'):
                    continue
                n_ins += 1
                # the table is written for a chunk that is not in it yet, and only then: HashMap::insert overwrites - used as
                # "get or insert" it re-points the hash of a repeated chunk at the index the next new chunk will get
                if q.endswith('HashMap::insert'):
                    cdom = c.dominators()
                    mbase = c.base_of(t['args'][0])
                    absent = False
                    for cbi2, ct2 in c.calls():
                        if 'q' not in ct2['callee'] or ct2['t'] is None or not ct2['args'] or not callee_q(ct2).endswith(('HashMap::contains_key', 'HashMap::get')):
                            continue
                        b2 = c.base_of(ct2['args'][0])
                        if not (b2 and mbase and b2[0] == mbase[0] and [x[1] for x in b2[1]] == [x[1] for x in mbase[1]]):
                            continue
                        if callee_q(ct2).endswith('contains_key'):
                            sw2 = c.blocks[ct2['t']]['term']
                            if sw2['k'] == 'switch':
                                f_t = dict(zip(sw2['vals'], sw2['targets'])).get(0)
                                if f_t is not None and (f_t in cdom.get(bi, ()) or f_t == bi):
                                    absent = True
                        else:
                            from .r_misc import _variant_edges
                            for sbi2, tg2 in _variant_edges(c, ct2['dest']['l'], 0, conveyors=True):
                                if tg2 in cdom.get(bi, ()) or tg2 == bi:
                                    absent = True
                    instances.append({'rule': 'R-DICT-WIRING(dedup-insert)', 'function': c.q, 'at': t['loc'], 'behind_absence_test': absent})
                    if not absent:
                        finding(facts.bodies[pid].q, 'dedup-insert-unguarded', 'the de-duplication table is written at %s for a chunk that may already be in it: insert() '
                                'overwrites, so the entry of a repeated chunk is re-pointed at an index that belongs to another chunk' % t['loc'])
                term = simplify(T.of_operand(c, val))
                ok = False
                why = show(term)[:80]
                if has_call(term, 'HashMap::len'):
                    ok = True
                elif term[0] == 'field' and not any(n[0] == 'call' for n in walk(term)):
                    # a counter kept next to the table (a captured variable, or a field of the struct that holds the table):
                    # advanced by one in this closure, on the way of the insert
                    incs = 0
                    for cbi in c.live:
                        for st in c.blocks[cbi]['stmts']:
                            if st['k'] == 'assign' and st['pl']['p'] and st['pl']['p'][-1]['k'] in ('field', 'deref'):
                                vt = simplify(T.of_rvalue(c, st['rv'], 0))
                                if vt[0] == 'field' and len(vt) > 2 and vt[2] == 0 and isinstance(vt[1], tuple) and vt[1][0] == 'binop':
                                    vt = vt[1]          # the value half of a checked addition
                                if vt[0] == 'binop' and vt[1] in ('Add', 'AddWithOverflow') and ('const', 1) in (vt[2], vt[3]) and term in (vt[2], vt[3]):
                                    incs += 1
                    ok = incs == 1
                    why = 'a counter with %d increments' % incs
                instances.append({'rule': 'R-DICT-WIRING(order-index)', 'function': c.q, 'at': t['loc'], 'value': why, 'ok': ok})
                if not ok:
                    finding(facts.bodies[pid].q, 'order-index', 'the index recorded for a chunk seen for the first time is %s, not a count of unique chunks: after the first '
                            'repeated chunk every new chunk gets an index that is too high' % why)
    if n_ins < 2:
        finding('-', 'floor-order-index', 'expected the de-duplication table insert of both writers, found %d (cannot decide)' % n_ins)
    return instances, findings


def _resolve_param(facts, T, cg, term, depth=0):
    """a term that is a bare parameter of a crate-local (async) fn is replaced by the argument its callers pass"""
    if depth > 3 or not (isinstance(term, tuple) and term[0] == 'param'):
        return term
    fnq, idx = term[1], term[2]
    args = set()
    last = None
    for (b, bi, t) in cg.calls_to(fnq):
        if idx < len(t['args']):
            a = simplify(T.resolve_env(simplify(T.of_operand(b, t['args'][idx]))))
            args.add(freeze(a))
            last = a
    if len(args) == 1:
        return _resolve_param(facts, T, cg, last, depth + 1)
    return term


def _strip_cast(t):
    while isinstance(t, tuple) and t and t[0] == 'cast':
        t = t[2]
    return t


def _sig(t):
    """what a recorded parameter is made of, independent of how the expression is written: the configuration fields it
    reads, the variant it is taken from, the (non-transparent) functions applied, and its value if it is a constant"""
    cv = const_value(t)
    fields = sorted({str(n[2]) for n in walk(t) if n[0] == 'field' and isinstance(n[2], str)})
    calls = sorted({n[1].split('::')[-1] for n in walk(t) if n[0] == 'call'})
    return (cv, tuple(fields), tuple(calls), variant_of(t))


def _norm(t):
    """normalise a term for sibling comparison: parameter names and owner functions are dropped"""
    if isinstance(t, tuple):
        if t[0] == 'param':
            return ('param',)
        if t[0] == 'field' and isinstance(t[1], tuple) and t[1][0] == 'param':
            # options.chunk_hash_length vs opts.hash_length: both are "the hash length option"
            return ('field', ('param',), {'chunk_hash_length': 'hash_length'}.get(t[2], t[2]))
        return tuple(_norm(x) for x in t)
    if isinstance(t, list):
        return [_norm(x) for x in t]
    if isinstance(t, dict):
        return {k: _norm(v) for k, v in t.items()}
    return t
