"""Path rules built on the Explorer: guarded must-pass-through steps, must-precede, pairing."""
import collections
from ..facts import succs, callee_q
from ..paths import Explorer, Rule, switch_edges, outcome_after_stmt, outcome_after_term
from ..terms import Terms, simplify, has_call, has_field, show, walk

HASH_EQ = ('<bitar::hashsum::HashSum as core::cmp::PartialEq>::eq', '<bitar::hashsum::HashSum as core::cmp::PartialEq>::ne',
           '<bitar::hashsum::HashSum as core::cmp::PartialEq<&[u8]>>::eq', '<bitar::hashsum::HashSum as core::cmp::PartialEq<&[u8]>>::ne')
OK_OUTCOMES = ('Ok', 'Unknown', 'Unassigned')


class _Exits(Rule):
    init = None

    def __init__(self):
        self.outs = set()

    def on_exit(self, b, bi, state, outcome):
        self.outs.add(outcome)


def exit_outcomes_from(b, start):
    """set of outcomes of all function exits reachable from block `start` (the outcome of each frame starts Unassigned;
    known enum variants prune the `?` dispatch after an inlined helper returned Err / Ok)"""
    r = _Exits()
    Explorer(b, r, start=start).run()
    return r.outs


def bool_switch_polarity(b, T, t):
    """For a switch terminator return (term, flipped): the condition term with leading Nots peeled and
    whether an odd number was peeled."""
    term = simplify(T.of_operand(b, t['op']))
    flipped = False
    while isinstance(term, tuple) and term[0] == 'unop' and term[1] == 'Not':
        term = term[2]
        flipped = not flipped
    return term, flipped


class GuardedStep(Rule):
    """Every Ok exit has passed `step` unless the guard is known to be on its bypass side.
    step(b, bi, t) -> bool ; guard_of(b, bi, t) -> {succ: guard value} | None for switches."""
    def __init__(self, b, step, guard_of, bypass_value, also_at=None, origin=None):
        self.b = b
        # origin = (stmt predicate, call predicate) -> None | polarity: where the boolean the guard stands for is computed.  The
        # exploration splits there (value true / false) and lets the constant environment decide every test derived from it,
        # whatever shape the derivation takes (a flag, an enum built from it, a comparison with a variant)
        if origin:
            self.fork_stmt = lambda b_, bi, st, state: self._fork(origin[0](b_, bi, st), state)
            self.fork_call = lambda b_, bi, t, state: self._fork(origin[1](b_, bi, t), state)
        self.step = step
        self.guard_of = guard_of
        self.bypass_value = bypass_value
        self.also_at = also_at          # optional: call predicate at which the obligation must already hold
        self.init = (False, None, ())   # (passed, guard, known Option variants / discriminants of locals)
        self.violations = []
        self.ok_exits = 0
        self.steps_seen = 0

    def _fork(self, polarity, state):
        if polarity is None:
            return None
        return [(True, (state[0], bool(polarity), state[2])), (False, (state[0], not polarity, state[2]))]

    def on_stmt(self, b, bi, st, state):
        """track which variant an Option-typed local holds so that `if let Some(x) = local` after
        `local = if flag { Some(..) } else { None }` only follows the feasible edge"""
        if st['k'] != 'assign' or st['pl']['p']:
            return state
        passed, guard, env = state
        dst, rv = st['pl']['l'], st['rv']
        e = dict(env)
        e.pop(dst, None)
        if rv['k'] == 'agg' and rv.get('adt') == 'core::option::Option':
            e[dst] = ('v', 1 if rv['vname'] == 'Some' else 0)
        elif rv['k'] == 'use' and rv['op']['k'] in ('copy', 'move') and not rv['op']['pl']['p'] and rv['op']['pl']['l'] in e:
            e[dst] = e[rv['op']['pl']['l']]
        elif rv['k'] == 'discr' and not rv['pl']['p'] and rv['pl']['l'] in e and e[rv['pl']['l']][0] == 'v':
            e[dst] = ('d', e[rv['pl']['l']][1])
        if len(e) > 12:
            e = dict(list(e.items())[-12:])
        return (passed, guard, tuple(sorted(e.items())))

    def on_term(self, b, bi, t, state):
        passed, guard, env = state
        if t['k'] == 'call':
            if not t['dest']['p'] and dict(env).get(t['dest']['l']) is not None:
                e = dict(env)
                e.pop(t['dest']['l'], None)
                env = tuple(sorted(e.items()))
                state = (passed, guard, env)
            if self.step(b, bi, t):
                self.steps_seen += 1
                return (True, guard, env)
            if self.also_at and self.also_at(b, bi, t):
                if not passed and guard != self.bypass_value:
                    self.violations.append(('before', t['loc'], guard))
            return state
        if t['k'] == 'switch':
            g = self.guard_of(b, bi, t)
            if g is not None:
                return [(s2, (passed, g.get(s2, guard), env)) for s2 in set(succs(t))]
            if t['op']['k'] in ('copy', 'move') and not t['op']['pl']['p']:
                known = dict(env).get(t['op']['pl']['l'])
                if known and known[0] == 'd':
                    tgt = dict(zip(t['vals'], t['targets'])).get(known[1], t['otherwise'])
                    return [(tgt, state)]
        return state

    def on_exit(self, b, bi, state, outcome):
        passed, guard, env = state
        if outcome in OK_OUTCOMES:
            self.ok_exits += 1
            if not passed and guard != self.bypass_value:
                self.violations.append(('exit', b.blocks[bi]['term']['loc'], guard))


def guard_from_bool_call(T, callee_suffix):
    """guard = value of a bool whose term contains a call to callee_suffix"""
    def g(b, bi, t):
        if t['op']['k'] not in ('copy', 'move') or t['op']['pl']['p'] or b.lty(t['op']['pl']['l']).get('k') != 'bool':
            return None         # only a branch on the boolean itself, not the Ready/Pending or `?` dispatches on its way
        term, flipped = bool_switch_polarity(b, T, t)
        if not has_call(term, callee_suffix):
            return None
        res = {}
        for v, tgt in switch_edges(t):
            val = (v != 0) if v is not None else True     # switchInt(bool): [0: false-target, otherwise: true-target]
            if v is None and 1 in t['vals']:
                continue
            res[tgt] = (not val) if flipped else val
        return res
    return g


def guard_block_device(T):
    """guard = "the output is a block device".  Recognised by what decides it, not by the name of a helper:
    a comparison of (a term containing) `st_mode()` with the S_IFBLK pattern, or `file_type().is_block_device()`;
    as long as a helper named is_block_dev stays a call, the branch on its result is accepted too."""
    by_name = guard_from_bool_call(T, 'is_block_dev')

    def g(b, bi, t):
        term, flipped = bool_switch_polarity(b, T, t)
        res = None
        if isinstance(term, tuple) and term[0] == 'binop' and term[1] in ('Eq', 'Ne') and has_call(term, 'st_mode'):
            res = {}
            for v, tgt in switch_edges(t):
                val = (v != 0) if v is not None else True
                if flipped:
                    val = not val
                res[tgt] = val if term[1] == 'Eq' else (not val)
        elif has_call(term, 'is_block_device'):
            res = {}
            for v, tgt in switch_edges(t):
                val = (v != 0) if v is not None else True
                res[tgt] = (not val) if flipped else val
        if res is not None:
            return res
        return by_name(b, bi, t)
    return g


def origin_block_device(T):
    """where "the output is a block device" is computed: the statement comparing (a term containing) `st_mode()` with the
    S_IFBLK pattern, or the call `file_type().is_block_device()`.  -> (stmt predicate, call predicate), each giving the
    polarity (True: the boolean is true on a block device) or None"""
    def at_stmt(b, bi, st):
        if st['k'] != 'assign' or st['pl']['p'] or st['rv']['k'] != 'binop' or st['rv']['op'] not in ('Eq', 'Ne'):
            return None
        if b.lty(st['pl']['l']).get('k') != 'bool':
            return None
        ta = simplify(T.of_operand(b, st['rv']['a']))
        tb = simplify(T.of_operand(b, st['rv']['b']))
        if has_call(ta, 'st_mode') or has_call(tb, 'st_mode'):
            return st['rv']['op'] == 'Eq'
        return None

    def at_call(b, bi, t):
        if 'q' in t['callee'] and callee_q(t).endswith('::is_block_device') and b.lty(t['dest']['l']).get('k') == 'bool':
            return True
        return None
    return at_stmt, at_call


def guard_from_bool_field(T, field):
    def g(b, bi, t):
        term, flipped = bool_switch_polarity(b, T, t)
        if not (isinstance(term, tuple) and term[0] == 'field' and term[2] == field):
            return None
        res = {}
        for v, tgt in switch_edges(t):
            val = (v != 0) if v is not None else True
            res[tgt] = (not val) if flipped else val
        return res
    return g


def guard_from_option_field(T, field):
    """guard value True = Some, False = None; switch on discriminant of an Option-typed field"""
    def g(b, bi, t):
        term = simplify(T.of_operand(b, t['op']))
        # is_some() / is_none() on the field
        bterm, flipped = bool_switch_polarity(b, T, t)
        if isinstance(bterm, tuple) and bterm[0] == 'call' and bterm[1] in ('core::option::Option::is_some', 'core::option::Option::is_none') \
                and has_field(bterm, field):
            some_when_true = bterm[1].endswith('is_some')
            res = {}
            for v, tgt in switch_edges(t):
                val = (v != 0) if v is not None else True
                if flipped:
                    val = not val
                res[tgt] = val if some_when_true else (not val)
            return res
        if not (isinstance(term, tuple) and term[0] == 'discr' and has_field(term, field)):
            return None
        res = {}
        explicit = [v for v, _ in switch_edges(t) if v is not None]
        for v, tgt in switch_edges(t):
            if v is None:
                if explicit == [1]:
                    res[tgt] = False
                elif explicit == [0]:
                    res[tgt] = True
                continue
            res[tgt] = (v == 1)
        return res
    return g


HASHSUM = 'bitar::hashsum::HashSum'


def _pointee_adt(b, op):
    if op['k'] not in ('copy', 'move'):
        return None
    ty = b.lty(op['pl']['l'])
    d = 0
    while ty.get('k') == 'ref' and d < 4:
        ty = b.ty(ty['args'][0]); d += 1
    return ty.get('adt')


def hash_compare_sites(b, T, need_a, need_b):
    """call sites of HashSum eq/ne whose two argument terms satisfy need_a / need_b (in either order).
    returns [(block, term, unequal_target)]"""
    out = []
    for bi, t in b.calls():
        if 'q' not in t['callee']:
            continue
        q = callee_q(t)
        if not (t['callee']['q'] in ('core::cmp::PartialEq::eq', 'core::cmp::PartialEq::ne') and _pointee_adt(b, t['args'][0]) == HASHSUM):
            continue
        a0 = simplify(T.of_operand(b, t['args'][0]))
        a1 = simplify(T.of_operand(b, t['args'][1]))
        if (need_a(a0) and need_b(a1)) or (need_a(a1) and need_b(a0)):
            # the switch on the result: in the next block, or - when the comparison sits in an inlined helper that returns the
            # boolean - behind the straight line of moves that carries it back to the caller
            nxt = t['t']
            sw = b.blocks[nxt]['term'] if nxt is not None else None
            val, hops = (t['dest']['l'] if not t['dest']['p'] else None), 0
            while sw is not None and sw['k'] == 'goto' and val is not None and hops < 6:
                for st_ in b.blocks[nxt]['stmts']:
                    if st_['k'] == 'assign' and not st_['pl']['p'] and st_['rv']['k'] == 'use' and st_['rv']['op']['k'] in ('copy', 'move') \
                            and not st_['rv']['op']['pl']['p'] and st_['rv']['op']['pl']['l'] == val:
                        val = st_['pl']['l']
                nxt = sw['t']
                sw = b.blocks[nxt]['term']
                hops += 1
            if sw is not None and sw['k'] == 'switch' and hops:
                for st_ in b.blocks[nxt]['stmts']:
                    if st_['k'] == 'assign' and not st_['pl']['p'] and st_['rv']['k'] == 'use' and st_['rv']['op']['k'] in ('copy', 'move') \
                            and not st_['rv']['op']['pl']['p'] and st_['rv']['op']['pl']['l'] == val:
                        val = st_['pl']['l']
                if not (sw['op']['k'] in ('copy', 'move') and not sw['op']['pl']['p'] and sw['op']['pl']['l'] == val):
                    sw = None
            if not sw or sw['k'] != 'switch':
                out.append((bi, t, None, None))
                continue
            is_ne = q.endswith('::ne')
            # value true (otherwise) edge = ne-true = unequal ; for eq: false edge = unequal
            true_t = sw['otherwise']
            false_t = dict(zip(sw['vals'], sw['targets'])).get(0)
            unequal = true_t if is_ne else false_t
            equal = false_t if is_ne else true_t
            out.append((bi, t, unequal, equal))
    return out
