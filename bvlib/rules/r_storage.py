"""R-STORAGE: writer/reader agreement on "stored size == source size => raw".
The size comparison is evaluated under the three orderings and the program is walked along the
feasible edges (finite abstract domain; nothing is executed)."""
from ..facts import succs, callee_q
from ..terms import Terms, simplify, has_field, has_call, show

COMPRESSED_T = ('bytes::bytes::Bytes', 'bitar::chunk::CompressedChunk')
RAW_T = ('bitar::chunk::Chunk', 'bitar::chunk::VerifiedChunk')
DESC = 'bitar::chunk_dictionary::ChunkDescriptor'
CCHUNK = 'bitar::chunk::CompressedChunk'
CMPOPS = ('Lt', 'Le', 'Gt', 'Ge', 'Eq', 'Ne')


def pointee_adt(b, l):
    ty = b.lty(l)
    d = 0
    while ty.get('k') == 'ref' and d < 5:
        ty = b.ty(ty['args'][0])
        d += 1
    return ty.get('adt')


def klass_of_adt(adt):
    if adt in COMPRESSED_T:
        return 'C'
    if adt in RAW_T:
        return 'R'
    return None


def static_classes(b):
    """what a local holds, where a single definition says so whatever the path: the compressed / the raw chunk object ('Cobj' /
    'Robj'), its bytes ('Cdata' / 'Rdata' - also as a plain slice handed to a helper), the length of either"""
    if getattr(b, '_static_classes', None) is not None:
        return b._static_classes
    cls = {}
    for l in range(len(b.locals)):
        k = klass_of_adt(pointee_adt(b, l))
        if k:
            cls[l] = k + 'obj'
    changed = True
    rounds = 0
    while changed and rounds < 12:
        changed = False
        rounds += 1
        for l, ds in b.defs().items():
            if l in cls or len(ds) != 1:
                continue
            d = ds[0]
            got = None
            if d[0] == 'assign' and not d[1]['pl']['p']:
                rv = d[1]['rv']
                if rv['k'] in ('use', 'cast') and rv['op']['k'] in ('copy', 'move') and not rv['op']['pl']['p']:
                    got = cls.get(rv['op']['pl']['l'])
                elif rv['k'] == 'ref' and not any(p['k'] == 'field' for p in rv['pl']['p']):
                    got = cls.get(rv['pl']['l'])
            elif d[0] == 'call' and 'q' in d[1]['callee'] and d[1]['args'] and d[1]['args'][0]['k'] in ('copy', 'move') and not d[1]['args'][0]['pl']['p']:
                q = callee_q(d[1])
                k = cls.get(d[1]['args'][0]['pl']['l'])
                if k and k[0] in 'CR' and not k.startswith('len('):
                    if q.endswith(('::data', '::deref', '::as_slice')):
                        got = k[0] + 'data'
                    elif q.endswith(('::chunk', '::as_ref', '::into_inner', '::borrow')):
                        got = k
            if got:
                cls[l] = got
                changed = True
    b._static_classes = cls          # (kept on the body: a process evaluates many variants of the tree, ids repeat)
    return cls


def len_class(b, l, depth=0):
    ds = b.defs().get(l, [])
    if len(ds) != 1 or depth > 6:
        return None
    d = ds[0]
    if d[0] == 'call' and 'q' in d[1]['callee'] and callee_q(d[1]).endswith('::len') and d[1]['args']:
        a = d[1]['args'][0]
        if a['k'] in ('copy', 'move'):
            k = klass_of_adt(pointee_adt(b, a['pl']['l']))
            if k is None and not a['pl']['p']:
                sc = static_classes(b).get(a['pl']['l'])
                k = sc[0] if sc and sc[0] in 'CR' and not sc.startswith('len(') else None
            return k
    if d[0] == 'assign':
        rv = d[1]['rv']
        if rv['k'] in ('use', 'cast') and rv['op']['k'] in ('copy', 'move') and not rv['op']['pl']['p']:
            return len_class(b, rv['op']['pl']['l'], depth + 1)
    return None


def evalcmp(op, ca, cb, order):
    rel = {'<': -1, '=': 0, '>': 1}[order]          # relation of C to R
    x = rel if (ca, cb) == ('C', 'R') else -rel
    return {'Lt': x < 0, 'Le': x <= 0, 'Gt': x > 0, 'Ge': x >= 0, 'Eq': x == 0, 'Ne': x != 0}[op]


def walk_writer(b, bi, si, cmplocal, val):
    results = set()
    work = [(bi, si + 1, ((cmplocal, val),), ())]
    seen = set()
    while work:
        bi, si, benv, cenv = work.pop()
        key = (bi, si, benv, cenv)
        if key in seen or len(seen) > 30000:
            continue
        seen.add(key)
        B, C = dict(benv), dict(static_classes(b))
        C.update(dict(cenv))
        blk = b.blocks[bi]
        got_desc = False
        for st in blk['stmts'][si:]:
            if st['k'] != 'assign' or st['pl']['p']:
                continue
            dst, rv = st['pl']['l'], st['rv']
            B.pop(dst, None)
            C.pop(dst, None)
            if rv['k'] == 'use' and rv['op']['k'] in ('copy', 'move') and not rv['op']['pl']['p']:
                s = rv['op']['pl']['l']
                if s in B:
                    B[dst] = B[s]
                if s in C:
                    C[dst] = C[s]
            elif rv['k'] == 'use' and rv['op']['k'] in ('copy', 'move') and len(rv['op']['pl']['p']) == 2 and \
                    rv['op']['pl']['p'][0]['k'] == 'downcast' and rv['op']['pl']['p'][0].get('n') == 'Some' and \
                    str(C.get(rv['op']['pl']['l'], '')).startswith('Some:'):
                C[dst] = C[rv['op']['pl']['l']][5:]            # payload of an Option whose variant is known on this path
            elif rv['k'] == 'discr' and not rv['pl']['p'] and str(C.get(rv['pl']['l'], '')).startswith(('Some:', 'None')):
                B[dst] = 1 if C[rv['pl']['l']].startswith('Some:') else 0
            elif rv['k'] == 'discr' and not rv['pl']['p'] and rv['pl']['l'] in B and b.lty(rv['pl']['l']).get('adt') == 'core::cmp::Ordering':
                B[dst] = B[rv['pl']['l']]           # the discriminant of a known Ordering (Less = -1, Equal = 0, Greater = 1)
            elif rv['k'] == 'use' and rv['op']['k'] == 'const' and 'int' in rv['op'] and b.lty(dst).get('k') == 'bool':
                B[dst] = bool(rv['op']['int'])
            elif rv['k'] == 'unop' and rv['op'] == 'Not' and rv['a']['k'] in ('copy', 'move') and rv['a']['pl']['l'] in B:
                B[dst] = not B[rv['a']['pl']['l']]
            elif rv['k'] == 'ref':
                base = b.base_of_place(rv['pl'])
                if base[0] in C:
                    C[dst] = C[base[0]]
                elif not any(p['k'] == 'field' for p in rv['pl']['p']):
                    k = klass_of_adt(pointee_adt(b, rv['pl']['l']))
                    if k:
                        C[dst] = k + 'obj'
            elif rv['k'] == 'cast' and rv['op']['k'] in ('copy', 'move') and rv['op']['pl']['l'] in C:
                C[dst] = C[rv['op']['pl']['l']]
            elif rv['k'] == 'agg' and rv.get('adt') == DESC:
                for name, o in zip(rv['fields'], rv['ops']):
                    if name == 'archive_size' and o['k'] in ('copy', 'move'):
                        results.add(('archive_size', C.get(o['pl']['l'], '?')))
                got_desc = True
        t = blk['term']
        nxt = succs(t)
        if t['k'] == 'call' and 'q' in t['callee']:
            q, dst = callee_q(t), t['dest']['l']
            B.pop(dst, None)
            C.pop(dst, None)
            a0 = t['args'][0] if t['args'] else None
            if q.endswith(('bool::then_some', 'bool::then')) and a0 and a0['k'] in ('copy', 'move') and a0['pl']['l'] in B and len(t['args']) > 1:
                # `flag.then_some(x)`: Some(x) exactly when the flag is set
                if B[a0['pl']['l']]:
                    a1 = t['args'][1]
                    k = C.get(a1['pl']['l']) if a1['k'] in ('copy', 'move') else None
                    if k is None and a1['k'] in ('copy', 'move'):
                        kk = klass_of_adt(pointee_adt(b, a1['pl']['l']))
                        k = kk + 'obj' if kk else '?'
                    C[dst] = 'Some:' + str(k)
                else:
                    C[dst] = 'None'
            elif q.endswith(('::data', '::deref', '::chunk', '::as_ref', '::into_inner')) and a0 and a0['k'] in ('copy', 'move'):
                k = C.get(a0['pl']['l'])
                if k is None:
                    kk = klass_of_adt(pointee_adt(b, a0['pl']['l']))
                    k = kk + 'obj' if kk else None
                if k:
                    C[dst] = (k[0] + 'data') if q.endswith(('::data', '::deref')) else k
            elif q.endswith('::len') and a0 and a0['k'] in ('copy', 'move') and a0['pl']['l'] in C:
                C[dst] = 'len(' + C[a0['pl']['l']] + ')'
            elif q.endswith(('AsyncWriteExt::write_all', 'io::Write::write_all')) and len(t['args']) > 1 and t['args'][1]['k'] in ('copy', 'move'):
                results.add(('written', C.get(t['args'][1]['pl']['l'], '?')))
        if t['k'] == 'assert' and t['ak'] == 'Overflow(Add)':
            cl = [C.get(o['pl']['l']) for o in t['ops'] if o['k'] in ('copy', 'move')]
            hit = [c for c in cl if c and c.startswith('len(')]
            if hit:
                results.add(('offset+=', hit[0]))
        if t['k'] == 'switch' and t['op']['k'] in ('copy', 'move') and t['op']['pl']['l'] in B:
            v = int(B[t['op']['pl']['l']])
            tbl = dict(zip(t['vals'], t['targets']))
            hit = [tbl[x] for x in ((v,) if v >= 0 else (v, v & 0xFF, v & 0xFFFF, v & 0xFFFFFFFF, v & 0xFFFFFFFFFFFFFFFF, v & ((1 << 128) - 1))) if x in tbl]
            nxt = [hit[0] if hit else t['otherwise']]
        have = {r[0] for r in results}
        if {'archive_size', 'written', 'offset+='} <= have:
            continue
        for n in nxt:
            if not b.blocks[n].get('cleanup'):
                work.append((n, 0, tuple(sorted(B.items())), tuple(sorted(C.items()))))
    return results


def writers(facts):
    out = []
    for b in facts.bodies.values():
        if b.q.startswith('<'):
            continue
        if not any(st['k'] == 'assign' and st['rv']['k'] == 'agg' and st['rv'].get('adt') == DESC and not st.get('exp')
                   for bi in b.live for st in b.blocks[bi]['stmts']):
            continue
        sites = []
        for bi in b.live:
            for si, st in enumerate(b.blocks[bi]['stmts']):
                if st['k'] == 'assign' and st['rv']['k'] == 'binop' and st['rv']['op'] in CMPOPS:
                    rv = st['rv']
                    if all(o['k'] in ('copy', 'move') and not o['pl']['p'] for o in (rv['a'], rv['b'])):
                        ca, cb = len_class(b, rv['a']['pl']['l']), len_class(b, rv['b']['pl']['l'])
                        if {ca, cb} == {'C', 'R'}:
                            sites.append((bi, si, st, ca, cb))
            # the same comparison as `c.len().cmp(&r.len())`, dispatched on the Ordering
            t = b.blocks[bi]['term']
            if t['k'] == 'call' and 'q' in t['callee'] and t['callee']['q'] in ('core::cmp::Ord::cmp', 'core::cmp::PartialOrd::partial_cmp') and len(t['args']) == 2 \
                    and not t['dest']['p'] and t.get('t') is not None and b.lty(t['dest']['l']).get('adt') == 'core::cmp::Ordering':
                bases = [b.base_of(a) for a in t['args']]
                if all(x and not x[1] for x in bases):
                    ca, cb = len_class(b, bases[0][0]), len_class(b, bases[1][0])
                    if {ca, cb} == {'C', 'R'}:
                        sites.append((bi, None, {'call': t, 'loc': t['loc'], 'pl': t['dest'], 'rv': {'op': 'cmp'}}, ca, cb))
        out.append((b, sites))
    return out


def reader_sites(facts, T):
    """bodies building a CompressedChunk whose `compression` is decided by a comparison with source_size"""
    out = []
    for b in facts.bodies.values():
        if b.q.endswith('::try_compress') or b.q.startswith('<'):
            continue
        aggs = [(bi, st) for bi in b.live for st in b.blocks[bi]['stmts']
                if st['k'] == 'assign' and st['rv']['k'] == 'agg' and st['rv'].get('adt') == CCHUNK and not st.get('exp')]
        if not aggs:
            continue
        sites = []
        for bi in b.live:
            for si, st in enumerate(b.blocks[bi]['stmts']):
                if st['k'] == 'assign' and st['rv']['k'] == 'binop' and st['rv']['op'] in CMPOPS:
                    ta = simplify(T.of_operand(b, st['rv']['a']))
                    tb = simplify(T.of_operand(b, st['rv']['b']))
                    sa, sb = has_field(ta, 'source_size'), has_field(tb, 'source_size')
                    la, lb = has_call(ta, '::len'), has_call(tb, '::len')
                    if (sa and lb) or (sb and la):
                        sites.append((bi, si, st, 'S' if sa else 'L', 'S' if sb else 'L'))
        out.append((b, aggs, sites))
    return out


def walk_reader(b, bi, si, cmplocal, val):
    """class of the `compression` operand of the CompressedChunk aggregate: 'None' | 'Some/other'"""
    results = set()
    work = [(bi, si + 1, ((cmplocal, val),), ())]
    seen = set()
    while work:
        bi, si, benv, cenv = work.pop()
        key = (bi, si, benv, cenv)
        if key in seen or len(seen) > 20000:
            continue
        seen.add(key)
        B, C = dict(benv), dict(cenv)
        blk = b.blocks[bi]
        done = False
        for st in blk['stmts'][si:]:
            if st['k'] != 'assign' or st['pl']['p']:
                continue
            dst, rv = st['pl']['l'], st['rv']
            B.pop(dst, None)
            C.pop(dst, None)
            if rv['k'] == 'agg' and rv.get('adt') == 'core::option::Option':
                C[dst] = rv['vname']
            elif rv['k'] == 'use' and rv['op']['k'] in ('copy', 'move'):
                s = rv['op']['pl']['l']
                if not rv['op']['pl']['p'] and s in B:
                    B[dst] = B[s]
                if not rv['op']['pl']['p'] and s in C:
                    C[dst] = C[s]
                elif b.lty(dst).get('adt') == 'core::option::Option':
                    C[dst] = 'other'
            elif rv['k'] == 'unop' and rv['op'] == 'Not' and rv['a']['k'] in ('copy', 'move') and rv['a']['pl']['l'] in B:
                B[dst] = not B[rv['a']['pl']['l']]
            elif rv['k'] == 'agg' and rv.get('adt') == CCHUNK:
                for name, o in zip(rv['fields'], rv['ops']):
                    if name == 'compression':
                        results.add(C.get(o['pl']['l'], 'other') if o['k'] in ('copy', 'move') else 'const')
                done = True
        if done:
            continue
        t = blk['term']
        nxt = succs(t)
        if t['k'] == 'call':
            C.pop(t['dest']['l'], None)
            B.pop(t['dest']['l'], None)
            if b.lty(t['dest']['l']).get('adt') == 'core::option::Option':
                C[t['dest']['l']] = 'other'
        if t['k'] == 'switch' and t['op']['k'] in ('copy', 'move') and t['op']['pl']['l'] in B:
            v = int(B[t['op']['pl']['l']])
            nxt = [dict(zip(t['vals'], t['targets'])).get(v, t['otherwise'])]
        for n in nxt:
            if not b.blocks[n].get('cleanup'):
                work.append((n, 0, tuple(sorted(B.items())), tuple(sorted(C.items()))))
    return results


def run(facts, cg=None):
    T = Terms(facts)
    instances, findings = [], []

    def finding(b, what, detail):
        key = 'R-STORAGE|%s|%s' % (b.q, what)
        if key not in {x['key'] for x in findings}:
            findings.append({'rule': 'R-STORAGE', 'key': key, 'function': b.q, 'what': detail})
    for b, sites in writers(facts):
        if len(sites) != 1:
            finding(b, 'no-unique-comparison', 'writer has %d comparisons of compressed vs raw length (expected 1)' % len(sites))
            continue
        bi, si, st, ca, cb = sites[0]
        row = {}
        for order in '<=>':
            if si is None:
                rel = {'<': -1, '=': 0, '>': 1}[order]
                val = rel if (ca, cb) == ('C', 'R') else -rel
                res = walk_writer(b, st['call']['t'], -1, st['pl']['l'], val)
            else:
                val = evalcmp(st['rv']['op'], ca, cb, order)
                res = walk_writer(b, bi, si, st['pl']['l'], val)
            row[order] = sorted(res)
            d = dict()
            for k, v in res:
                d.setdefault(k, set()).add(v)
            if not {'written', 'archive_size'} <= set(d):
                finding(b, 'unobserved:C%sR' % order, 'could not observe the written buffer / archive_size under C%sR' % order)
                continue
            want = 'C' if order == '<' else 'R'
            if order in '=>':
                if d['written'] != {'Rdata'}:
                    finding(b, 'written:C%sR' % order, 'when compressed size %s raw size the %s is written' % (order, sorted(d['written'])))
                if d['archive_size'] != {'len(Rdata)'}:
                    finding(b, 'archive_size:C%sR' % order, 'when compressed size %s raw size archive_size is %s' % (order, sorted(d['archive_size'])))
            # consistency in every ordering
            w = {x[0] for x in d['written']}
            a = {x[4] for x in d['archive_size'] if x.startswith('len(')}
            o = {x[4] for x in d.get('offset+=', set()) if x.startswith('len(')}
            if len(w) != 1 or (a and a != w) or (o and o != w):
                finding(b, 'inconsistent:C%sR' % order, 'written data, archive_size and offset increment disagree: %s' % row[order])
        instances.append({'rule': 'R-STORAGE', 'obligations': 3, 'role': 'writer', 'function': b.q, 'comparison': '%s(%s,%s) at %s' % (st['rv']['op'], ca, cb, st['loc']), 'orderings': row})
    rs = reader_sites(facts, T)
    for b, aggs, sites in rs:
        if len(sites) != 1:
            finding(b, 'reader-no-unique-comparison', 'reader has %d comparisons of source_size with the fetched length' % len(sites))
            continue
        bi, si, st, ka, kb = sites[0]
        # every chunk is built behind that comparison: a path around it (`flag && size == len`: with the flag off the sizes are
        # never compared) hands a chunk that was stored as it is to the decompressor
        dom_ = b.dominators()
        for abi, ast_ in aggs:
            if not (bi == abi or bi in dom_.get(abi, ())):
                finding(b, 'reader-bypass', 'the chunk built at %s can be reached without the stored size having been compared with the source size (%s): a chunk '
                        'stored raw is then treated as compressed' % (ast_['loc'], st['loc']))
        row = {}
        for rel in ('equal', 'unequal'):
            # evaluate for equal and for both unequal orderings
            outs = set()
            for order in (['='] if rel == 'equal' else ['<', '>']):
                x = {'<': -1, '=': 0, '>': 1}[order]
                val = {'Lt': x < 0, 'Le': x <= 0, 'Gt': x > 0, 'Ge': x >= 0, 'Eq': x == 0, 'Ne': x != 0}[st['rv']['op']]
                outs |= walk_reader(b, bi, si, st['pl']['l'], val)
            row[rel] = sorted(outs)
        if row['equal'] != ['None']:
            finding(b, 'reader-equal', 'stored size == source size is not treated as raw (compression=%s)' % row['equal'])
        if 'None' in row['unequal'] or not row['unequal']:
            finding(b, 'reader-unequal', 'stored size != source size may be treated as raw (compression=%s)' % row['unequal'])
        instances.append({'rule': 'R-STORAGE', 'obligations': 2, 'role': 'reader', 'function': b.q, 'comparison': '%s at %s' % (st['rv']['op'], st['loc']), 'cases': row})
    if sum(1 for i in instances if i['role'] == 'writer') < 2:
        findings.append({'rule': 'R-STORAGE', 'key': 'R-STORAGE|floor|writers', 'function': '-', 'what': 'expected 2 archive writers, found fewer (cannot decide)'})
    if not any(i['role'] == 'reader' for i in instances):
        findings.append({'rule': 'R-STORAGE', 'key': 'R-STORAGE|floor|reader', 'function': '-', 'what': 'reader site not found (cannot decide)'})
    return instances, findings
