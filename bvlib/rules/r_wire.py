"""E3 rules: R-OFFSETS, R-WIRE (argument roles in the clone command), R-HASHEQ."""
from ..facts import callee_q, callee_def, succs
from ..terms import Terms, simplify, has_call, has_call_deep, has_field, show, walk, freeze, calls_in
from ..typestate import coroutine_of

ARCH_DESC = 'bitar::archive::ChunkDescriptor'
NEW_CHUNKER = 'bitar::chunker::config::Config::new_chunker'
NEW_OUT = 'bitar::clone_output::CloneOutput::new'
NEW_INDEX = 'bitar::chunk_index::ChunkIndex::new_empty'
CHUNK_STREAM = 'bitar::archive::Archive::chunk_stream'


def param_sources(facts, T, fn_id, target_q, target_arg, depth=0, seen=None):
    """indices of the parameters of crate-local fn `fn_id` whose value reaches argument `target_arg` of a call to
    `target_q` (directly or through further crate-local calls)"""
    seen = seen or set()
    if fn_id in seen or depth > 5:
        return set()
    seen.add(fn_id)
    g = facts.bodies[fn_id]
    cb, pm = coroutine_of(facts, g)
    body = facts.bodies[cb] if cb else g
    out = set()
    for bi, t in body.calls():
        if 'q' not in t['callee']:
            continue
        q = callee_q(t)
        idxs = []
        if q == target_q:
            idxs = [target_arg]
        else:
            d = callee_def(t)
            if d in facts.bodies and facts.bodies[d].crate == g.crate and d != fn_id:
                idxs = sorted(param_sources(facts, T, d, target_q, target_arg, depth + 1, seen))
        for ai in idxs:
            if ai >= len(t['args']):
                continue
            term = simplify(T.resolve_env(simplify(T.of_operand(body, t['args'][ai]))))
            for n in walk(term):
                if n[0] == 'param' and n[1] == g.q:
                    out.add(n[2])
                if n[0] == 'field' and isinstance(n[1], tuple) and n[1][0] == 'env' and n[1][1] == body.id and cb:
                    inv = {v: k for k, v in pm.items()}
                    if n[2] in inv:
                        out.add(inv[n[2]] - 1)
    return out


def accessor_receiver(b, op, suffix, depth=0):
    """if operand is (a copy/ref of) the result of a call `..suffix(recv, ..)` return the base local of recv"""
    if op['k'] not in ('copy', 'move') or depth > 8:
        return None
    base = b.base_of(op)
    l = base[0]
    ds = b.defs().get(l, [])
    if len(ds) != 1:
        return None
    d = ds[0]
    if d[0] == 'call' and 'q' in d[1]['callee']:
        if callee_q(d[1]).endswith(suffix) and d[1]['args']:
            r = b.base_of(d[1]['args'][0])
            return r[0] if r else None
        # transparent wrappers (Into::into, clone, deref ...)
        if d[1]['args']:
            return accessor_receiver(b, d[1]['args'][0], suffix, depth + 1)
    if d[0] == 'assign' and d[1]['rv']['k'] in ('use', 'cast') and d[1]['rv']['op']['k'] in ('copy', 'move'):
        return accessor_receiver(b, d[1]['rv']['op'], suffix, depth + 1)
    if d[0] == 'assign' and d[1]['rv']['k'] == 'ref':
        return accessor_receiver(b, {'k': 'copy', 'pl': d[1]['rv']['pl']}, suffix, depth + 1)
    return None


def _strip(t, suffixes):
    """replace calls (or function values passed to map) ending in one of `suffixes`, with their arguments, by a leaf"""
    if isinstance(t, tuple):
        if t[0] == 'call' and t[1].endswith(suffixes):
            return ('decoded',)
        if t[0] == 'call' and any(isinstance(a, tuple) and a[0] == 'fn' and a[1].endswith(suffixes) for a in t[2]):
            return ('decoded',)
        return tuple(_strip(x, suffixes) for x in t)
    if isinstance(t, list):
        return [_strip(x, suffixes) for x in t]
    if isinstance(t, dict):
        return {k: _strip(v, suffixes) for k, v in t.items()}
    return t


def archive_of(term):
    """the sub-term an Archive accessor is applied to (first argument of Archive::xxx)"""
    for n in walk(term):
        if n[0] == 'call' and '::Archive::' in n[1] and n[2]:
            return freeze(n[2][0])
    return None


def _vec_elem(facts, adt, field):
    """element ADT of a Vec-typed field of a crate-local struct"""
    a = facts.adts.get(adt)
    crate = adt.split('::')[0]
    for fd in a['variants'][0]['fields']:
        if fd['n'] == field:
            ty = facts.types.get((crate, fd['ty']), {})
            if ty.get('args'):
                return facts.types.get((crate, ty['args'][0]), {}).get('adt')
    return None


def frame_of(b, bi):
    """outermost inlined frame containing block bi (None: the function's own blocks)"""
    best = None
    for f_ in b.raw.get('inlined') or []:
        if f_['blocks'][0] <= bi < f_['blocks'][1]:
            if best is None or (f_['blocks'][1] - f_['blocks'][0]) > (best[1] - best[0]):
                best = tuple(f_['blocks'])
    return best


def arch_for(single, per_frame, b, bi):
    if single is not None or len(per_frame) <= 1:
        return single
    return per_frame.get(frame_of(b, bi))


def _with_coroutine(facts, g):
    """calls of a function and, for an async fn, of its coroutine"""
    out = list(g.calls())
    cb, pm = coroutine_of(facts, g)
    if cb and cb in facts.bodies:
        out += list(facts.bodies[cb].calls())
    return out


def run(facts, cg):
    T = Terms(facts)
    instances, findings = [], []

    def finding(rule, where, what, detail):
        key = '%s|%s|%s' % (rule, where, what)
        if key not in {x['key'] for x in findings}:
            findings.append({'rule': rule, 'key': key, 'function': where, 'what': detail})

    # ---------------------------------------------------------------- R-OFFSETS
    n = 0
    for b in facts.bodies.values():
        if b.generated:
            continue
        for bi in b.live:
            for st in b.blocks[bi]['stmts']:
                if st['k'] == 'assign' and st['rv']['k'] == 'agg' and st['rv'].get('adt') == ARCH_DESC:
                    n += 1
                    d = dict(zip(st['rv']['fields'], st['rv']['ops']))
                    t = simplify(T.resolve_env(simplify(T.of_operand(b, d['archive_offset']))))
                    cs = calls_in(t)
                    inst = {'rule': 'R-OFFSETS', 'function': b.q, 'at': st['loc'], 'archive_offset': show(t)[:300]}
                    instances.append(inst)
                    if not has_field(t, 'archive_offset'):
                        finding('R-OFFSETS', b.q, 'no-descriptor-offset', "absolute chunk offset does not use the descriptor's own archive_offset")
                    if not any(c.endswith('::from_le_bytes') for c in cs) and not any(n_[0] == 'fn' and n_[1].endswith('::from_le_bytes') for n_ in walk(t)):
                        finding('R-OFFSETS', b.q, 'no-decoded-base', 'absolute chunk offset is not based on the chunk-data offset decoded from the header')
                    # what contributes arithmetically, i.e. outside the bytes-to-integer decoding of header fields
                    outer = _strip(t, ('::from_le_bytes', '::from_be_bytes'))
                    ocs = calls_in(outer)
                    bad = [c for c in ocs if c.endswith(('::len', '::header_size', '::encoded_len'))]
                    # ... nor computed from the layout the writer happens to use (`14 + dictionary_size + 8 + 64` is where the header ends, which
                    # is where bita's own archives start their chunk data - the format lets it start anywhere behind): integer constants
                    # added on the way are the signature of such a computation
                    def _outside_slicing(t_):
                        # the term without what only serves to cut bytes out of the header (slice bounds are layout by nature)
                        if isinstance(t_, tuple):
                            if t_[0] == 'call' and t_[1].split('::')[-1] in ('get', 'index', 'split_at', 'try_from', 'try_into', 'first_chunk', 'get_unchecked', 'to_vec'):
                                return ('sliced',)
                            if t_[0] == 'agg' and 'Range' in str(t_[1]):
                                return ('range',)
                            return tuple(_outside_slicing(x) for x in t_)
                        if isinstance(t_, list):
                            return [_outside_slicing(x) for x in t_]
                        if isinstance(t_, dict):
                            return {k_: _outside_slicing(v_) for k_, v_ in t_.items()}
                        return t_
                    outer_ns = _outside_slicing(outer)
                    consts_added = [n_ for n_ in walk(outer_ns) if (n_[0] == 'binop' and n_[1] in ('Add', 'AddWithOverflow') and
                                                                 any(isinstance(x, tuple) and x[0] == 'const' and isinstance(x[1], int) and x[1] > 0 for x in (n_[2], n_[3]))) or
                                    (n_[0] == 'call' and n_[1].split('::')[-1] in ('checked_add', 'saturating_add', 'wrapping_add') and
                                     any(isinstance(x, tuple) and x[0] == 'const' and isinstance(x[1], int) and x[1] > 0 for x in n_[2]))]
                    if consts_added:
                        finding('R-OFFSETS', b.q, 'computed-base', 'the base of the absolute chunk offsets is computed by adding constants (%s): that is the end of the header, not the '
                                'chunk data offset the header records - archives with slack between the two are read at the wrong place' % show(consts_added[0])[:60])
                    if bad or has_field(outer, 'header_size') or any(x[0] == 'var' for x in walk(outer)):
                        finding('R-OFFSETS', b.q, 'inferred', 'absolute chunk offset is inferred from lengths / running state (%s) instead of the header field' % (bad or 'accumulator'))
    if n < 1:
        finding('R-OFFSETS', '-', 'floor', 'no construction of archive::ChunkDescriptor found (cannot decide)')
    # the format places no order on the stored chunks: opening an archive never compares one descriptor's place in the file
    # with a value carried over from the descriptors before it (a running "end of the previous chunk")
    ADESC = 'bitar::archive::ChunkDescriptor'
    for b in facts.bodies.values():
        if b.generated or not b.id.startswith('bitar::archive::') or 'try_init' not in b.id:
            continue
        for bi in b.live:
            for st in b.blocks[bi]['stmts']:
                if st['k'] != 'assign' or st['rv']['k'] != 'binop' or st['rv']['op'] not in ('Lt', 'Le', 'Gt', 'Ge'):
                    continue
                ta = simplify(T.of_operand(b, st['rv']['a']))
                tb = simplify(T.of_operand(b, st['rv']['b']))
                for x, y in ((ta, tb), (tb, ta)):
                    own = isinstance(x, tuple) and x[0] == 'field' and x[2] in ('archive_offset',) or has_call(x, 'archive_end_offset')
                    carried = False
                    for n_ in walk(y):
                        if n_[0] != 'var':
                            continue
                        for l_, lc in enumerate(b.locals):
                            if lc.get('name') == n_[-1] and len(b.defs().get(l_, [])) > 1:
                                for d_ in b.defs()[l_]:
                                    dt = simplify(T.of_rvalue(b, d_[1]['rv'], 0)) if d_[0] == 'assign' else simplify(T.of_call(b, d_[1], 0)) if d_[0] == 'call' else None
                                    if dt is not None and (has_call(dt, 'archive_end_offset') or has_field(dt, 'archive_offset') or has_field(dt, 'archive_size')):
                                        carried = True
                    if own and carried:
                        finding('R-OFFSETS', b.q, 'order-assumed', 'opening an archive compares a descriptor\'s place in the file with a value carried over from the descriptors '
                                'before it (%s): archives whose chunk data is not stored in dictionary order - which the format allows - are refused' % st['loc'])
    # the fetch list is built from descriptor offset/size only
    for (b, bi, t) in cg.calls_to('bitar::chunk_offset::ChunkOffset::new'):
        if not b.q.startswith('bitar::archive::'):
            continue
        a0 = simplify(T.of_operand(b, t['args'][0]))
        a1 = simplify(T.of_operand(b, t['args'][1]))
        instances.append({'rule': 'R-OFFSETS(fetch-list)', 'function': b.q, 'at': t['loc'], 'offset': show(a0), 'size': show(a1)})
        def _is_plain_field(x, name):
            while isinstance(x, tuple) and x[0] == 'cast':
                x = x[2]
            return isinstance(x, tuple) and x[0] == 'field' and x[2] == name
        # (the descriptor itself may come out of an iterator chain or out of a loop: what matters is that the two values are its
        # fields as they are)
        if not _is_plain_field(a0, 'archive_offset') or not _is_plain_field(a1, 'archive_size'):
            finding('R-OFFSETS', b.q, 'fetch-list', 'chunk fetch range is not exactly (descriptor.archive_offset, descriptor.archive_size): (%s, %s)' % (show(a0), show(a1)))

    # ---------------------------------------------------------------- R-WIRE in the clone command
    clone_fns = sorted({b.id for (b, bi, t) in cg.calls_to(NEW_OUT) if b.crate == 'bita'})
    for bid in clone_fns:
        b = facts.bodies[bid]
        # the archive whose source index initialises the output
        out_arch = None
        out_archs = {}          # inlined frame (None = the function itself) -> archive local; two inlined copies of a clone
                                # function each have their own archive and output
        for bi, t in b.calls():
            if 'q' in t['callee'] and callee_q(t) == NEW_OUT:
                idx_term = simplify(T.of_operand(b, t['args'][1]))
                if not has_call(idx_term, 'Archive::build_source_index'):
                    finding('R-WIRE', b.q, 'output-index', 'the clone output is not initialised with the archive source index (%s)' % show(idx_term)[:120])
                out_arch = accessor_receiver(b, t['args'][1], 'Archive::build_source_index')
                out_archs[frame_of(b, bi)] = out_arch
        if len(out_archs) > 1:
            out_arch = None
        scans = 0
        for bi, t in b.calls():
            d = callee_def(t)
            if d not in facts.bodies or facts.bodies[d].crate != 'bita':
                continue
            for (target, targ, accessor, what) in ((NEW_CHUNKER, 0, 'Archive::chunker_config', 'chunker configuration'),
                                                   (NEW_INDEX, 0, 'Archive::chunk_hash_length', 'hash length')):
                for pi in sorted(param_sources(facts, T, d, target, targ)):
                    if pi >= len(t['args']):
                        continue
                    scans += 1
                    term = simplify(T.of_operand(b, t['args'][pi]))
                    instances.append({'rule': 'R-WIRE(scan-config)', 'function': b.q, 'call': facts.bodies[d].q, 'at': t['loc'], 'what': what, 'term': show(term)[:80]})
                    if not has_call(term, accessor):
                        finding('R-WIRE', b.q, 'scan-%s:%s' % (what.split()[0], facts.bodies[d].q.split('::')[-1]),
                                '%s scans with a %s that is not the archive\'s own (%s)' % (facts.bodies[d].q, what, show(term)[:120]))
                    elif arch_for(out_arch, out_archs, b, bi) is not None and accessor_receiver(b, t['args'][pi], accessor) not in (None, arch_for(out_arch, out_archs, b, bi)):
                        finding('R-WIRE', b.q, 'scan-other-archive:%s' % facts.bodies[d].q.split('::')[-1], '%s uses the %s of a different archive value' % (facts.bodies[d].q, what))
            # chunk_stream(archive, output.chunks())
            for pi_a in sorted(param_sources(facts, T, d, CHUNK_STREAM, 0)):
                ra = b.base_of(t['args'][pi_a])
                if arch_for(out_arch, out_archs, b, bi) is not None and (ra is None or ra[0] != arch_for(out_arch, out_archs, b, bi)):
                    finding('R-WIRE', b.q, 'fetch-other-archive', 'chunks are fetched from a different archive value than the one that defined the output')
        # scans written in place (or inlined): the chunker / the index are built right here
        for bi, t in b.calls():
            if 'q' not in t['callee']:
                continue
            for (target, targ, accessor, what) in ((NEW_CHUNKER, 0, 'Archive::chunker_config', 'chunker configuration'),
                                                   (NEW_INDEX, 0, 'Archive::chunk_hash_length', 'hash length')):
                if callee_q(t) == target and targ < len(t['args']):
                    scans += 1
                    term = simplify(T.of_operand(b, t['args'][targ]))
                    instances.append({'rule': 'R-WIRE(scan-config)', 'function': b.q, 'call': target.split('::')[-1], 'at': t['loc'], 'what': what, 'term': show(term)[:80]})
                    if not has_call(term, accessor):
                        finding('R-WIRE', b.q, 'scan-%s:%s' % (what.split()[0], 'inline'),
                                'a scan at %s uses a %s that is not the archive\'s own (%s)' % (t['loc'], what, show(term)[:120]))
                    elif arch_for(out_arch, out_archs, b, bi) is not None and accessor_receiver(b, t['args'][targ], accessor) not in (None, arch_for(out_arch, out_archs, b, bi)):
                        finding('R-WIRE', b.q, 'scan-other-archive:inline', 'a scan at %s uses the %s of a different archive value' % (t['loc'], what))
        # an index of what a scan finds that is created with anything but the archive's hash length (a constant, "the full hash"):
        # `contains` / `remove` cut the probe to the index's length, `get` and the planner do not - the scan of the output finds every
        # chunk and then plans copies without destinations (the chunk leaves the set of wanted chunks unwritten), or recognises nothing
        for g in facts.bodies.values():
            if g.crate != 'bita' or g.generated:
                continue
            for gbi, gt in g.calls():
                if 'q' in gt['callee'] and callee_q(gt) == NEW_INDEX and gt['args']:
                    term = simplify(T.resolve_env(simplify(T.of_operand(g, gt['args'][0]))))
                    if any(n_[0] in ('param', 'cparam') for n_ in walk(term)) or has_call(term, 'Archive::chunk_hash_length'):
                        continue
                    scans += 1          # found, and wrong: report the wiring, not a missing anchor
                    finding('R-WIRE', b.q, 'scan-hash:' + ([x for x in g.q.split('::') if not x.startswith('{')] or ['inline'])[-1],
                            'the index built at %s from a scan is keyed with %s, not with the hash length of the archive' % (gt['loc'], show(term)[:60]))
        if scans < 4:
            finding('R-WIRE', b.q, 'floor', 'expected the output scan and the seed scans (config + hash length) to be found, got %d role sites: cannot decide' % scans)
    # ... and a scan runs to the end of its input: the loop that takes chunks off the chunker's stream and enters them into the index
    # is left only when the stream has ended (the None edge of `next()`) or with an error.  A `break` on a count of "chunks still to
    # find" (decremented per occurrence, so a chunk that repeats ends the scan early) leaves chunks the output holds unindexed:
    # they are fetched again.
    from .r_steps import exit_outcomes_from
    n_scanloop = 0
    for b in facts.bodies.values():
        if b.crate != 'bita' or b.generated:
            continue
        adds = [bi for bi, t in b.calls() if 'q' in t['callee'] and callee_q(t).endswith('ChunkIndex::add_chunk')]
        nexts = [(bi, t) for bi, t in b.calls() if 'q' in t['callee'] and callee_q(t).split('::')[-1] in ('next', 'try_next', 'poll_next', 'poll_next_unpin')
                 and ('StreamExt' in callee_q(t) or 'TryStreamExt' in callee_q(t) or 'Stream' in callee_q(t))]
        if not adds or not nexts:
            continue
        # the natural loop around the add: blocks from which the `next()` call is reached again
        preds = b.preds()

        def reach_back(goal):
            seen, w = set(), [goal]
            while w:
                x = w.pop()
                if x in seen:
                    continue
                seen.add(x)
                w.extend(p_ for p_ in preds.get(x, ()) if not b.blocks[p_].get('cleanup'))
            return seen

        def reach_fwd(start):
            seen, w = set(), [start]
            while w:
                x = w.pop()
                if x in seen or b.blocks[x].get('cleanup'):
                    continue
                seen.add(x)
                w.extend(succs(b.blocks[x]['term']))
            return seen
        for nbi, nt in nexts:
            loop = reach_fwd(nbi) & reach_back(nbi)
            if not any(a_ in loop for a_ in adds):
                continue
            n_scanloop += 1
            bad = []
            for x in sorted(loop):
                t = b.blocks[x]['term']
                for y in succs(t):
                    if y in loop or b.blocks[y].get('cleanup'):
                        continue
                    if t['k'] == 'switch':
                        ct = simplify(T.of_operand(b, t['op']))
                        # the dispatch on what `next()` gave: its None edge is the regular way out
                        subj = ct[1] if isinstance(ct, tuple) and ct[0] == 'discr' else None
                        if isinstance(subj, tuple) and subj[0] == 'field' and isinstance(subj[1], tuple) and subj[1][0] == 'variant' and subj[1][1] == 'Ready':
                            subj = subj[1][2]
                        if isinstance(subj, tuple) and (subj[0] == 'await' or (subj[0] == 'call' and subj[1].split('::')[-1] in ('next', 'try_next', 'poll_next', 'poll_next_unpin'))):
                            continue
                    if t['k'] in ('yield',):
                        continue
                    if exit_outcomes_from(b, y) <= {'Err'}:
                        continue
                    bad.append(t['loc'])
            instances.append({'rule': 'R-WIRE(scan-loop)', 'function': b.q, 'at': nt['loc'], 'exits_other_than_end_of_stream_or_error': bad})
            for loc in bad[:1]:
                finding('R-WIRE', b.q, 'scan-ends-early', 'the loop that indexes what a scan finds can be left at %s although the stream has not ended: chunks further on in the '
                        'input are not indexed - what the output already holds is fetched again' % loc)
    if n_scanloop < 1:
        finding('R-WIRE', '-', 'floor-scan-loop', 'the loop that enters scanned chunks into an index was not found (cannot decide)')
    # what a scan (of a seed, of the prior output) sees is every chunk of that one input: nothing thins the chunker's stream
    # before it is hashed and looked up (the input's own short last chunk is the source's last chunk when the two end alike),
    # and no two inputs are glued into one stream (the chunker's state would run across the join)
    THIN = ('filter', 'skip', 'take', 'step_by', 'skip_while', 'take_while', 'take_until', 'filter_map')
    n_sc = 0
    for b in facts.bodies.values():
        if b.crate != 'bita' or b.generated or '::clone_cmd::' not in b.id:
            continue
        for bi, t in b.calls():
            if 'q' not in t['callee'] or not t['args']:
                continue
            q = callee_q(t)
            if q == 'bitar::chunker::config::Config::new_chunker':
                n_sc += 1
                rd = simplify(T.resolve_env(simplify(T.of_operand(b, t['args'][1])))) if len(t['args']) > 1 else None
                if rd is not None and (has_call(rd, 'AsyncReadExt::chain') or has_call(rd, '::chain')):
                    finding('R-WIRE', b.q, 'scan-inputs-chained', 'the chunker at %s scans several inputs glued into one stream: the chunk that ends one input and the '
                            'chunk that starts the next are never found' % t['loc'])
            if q.split('::')[-1] in THIN and ('StreamExt' in t['callee']['q'] or 'Iterator' in t['callee']['q']):
                recv = simplify(T.of_operand(b, t['args'][0]))
                if has_call(recv, 'Config::new_chunker'):
                    finding('R-WIRE', b.q, 'scan-thinned:' + q.split('::')[-1], 'the stream of chunks cut from a seed / the prior output is thinned with %s at %s before it is '
                            'hashed: chunks the input holds are not found (an in-place last chunk is fetched and written again)' % (q.split('::')[-1], t['loc']))
    # the reader handed to a scan helper is one input, too
    for b in facts.bodies.values():
        if b.crate != 'bita' or b.generated or '::clone_cmd::' not in b.id:
            continue
        for bi, t in b.calls():
            d = t['callee'].get('rdef') or t['callee'].get('def')
            if d in facts.bodies and facts.bodies[d].crate == 'bita' and any('q' in t2['callee'] and callee_q(t2) == 'bitar::chunker::config::Config::new_chunker'
                                                                              for _, t2 in _with_coroutine(facts, facts.bodies[d])):
                for a in t['args']:
                    at = simplify(T.resolve_env(simplify(T.of_operand(b, a))))
                    if has_call_deep(T, b, at, 'AsyncReadExt::chain'):
                        finding('R-WIRE', b.q, 'scan-inputs-chained', 'the input handed to the scan at %s is several inputs glued into one stream: the chunk that ends one '
                                'input and the chunk that starts the next are never found' % t['loc'])
    if n_sc < 2:
        finding('R-WIRE', '-', 'floor-scans', 'expected the chunkers of the seed scan and the output scan in the clone command, found %d (cannot decide)' % n_sc)
    # inside the fetch helper: chunk_stream's argument is output.chunks() of the same output that is fed
    for (b, bi, t) in cg.calls_to(CHUNK_STREAM):
        if b.crate != 'bita':
            continue
        a1 = simplify(T.resolve_env(simplify(T.of_operand(b, t['args'][1]))))
        instances.append({'rule': 'R-WIRE(fetch-filter)', 'function': b.q, 'at': t['loc'], 'filter': show(a1)[:100]})
        if not has_call(a1, 'CloneOutput::chunks'):
            finding('R-WIRE', b.q, 'fetch-filter', 'chunk_stream is not given the remaining clone index of the output (%s)' % show(a1)[:120])
    # chunk_stream filters by its argument
    for b in facts.bodies.values():
        if b.q == 'bitar::archive::Archive::chunk_stream':
            ok = False
            for bid2 in list(cg.edges[b.id]) + [b.id]:
                c = facts.bodies[bid2]
                for bi, t in c.calls():
                    if 'q' in t['callee'] and callee_q(t) == 'bitar::chunk_index::ChunkIndex::contains':
                        recv = simplify(T.resolve_env(simplify(T.of_operand(c, t['args'][0]))))
                        if any(n_[0] == 'param' and n_[3] == 'chunks' or (n_[0] == 'param' and n_[2] == 1) for n_ in walk(recv)):
                            ok = True
            instances.append({'rule': 'R-WIRE(chunk_stream-filter)', 'function': b.q, 'filters_by_argument': ok})
            if not ok:
                finding('R-WIRE', b.q, 'no-filter', 'chunk_stream does not filter the descriptors by the index it is given')

    # ---------------------------------------------------------------- R-FETCHLIST: what is requested is the unique descriptor table,
    # filtered, in table order - and the n-th returned buffer is paired with the n-th descriptor of that same list
    REORDER = ('sort', 'sort_by', 'sort_by_key', 'sort_unstable', 'sort_unstable_by', 'sort_unstable_by_key', 'sort_by_cached_key', 'dedup',
               'dedup_by', 'dedup_by_key', 'reverse', 'retain', 'retain_mut', 'swap', 'swap_remove', 'rotate_left', 'rotate_right', 'drain',
               'truncate', 'remove', 'insert', 'split_off', 'rev', 'take', 'skip', 'step_by', 'take_while', 'skip_while', 'nth', 'last', 'min_by_key', 'max_by_key')
    roles = facts.fields_by_role('bitar::archive::Archive')
    vecs = roles.get('alloc::vec::Vec') or []
    n_fl = 0
    for b in facts.bodies.values():
        if b.q != 'bitar::archive::Archive::chunk_stream':
            continue
        for bi, t in b.calls():
            if 'q' not in t['callee'] or t['callee']['q'] != 'bitar::archive_reader::ArchiveReader::read_chunks':
                continue
            n_fl += 1
            term = simplify(T.resolve_env(simplify(T.of_operand(b, t['args'][1]))))
            # a list filled by push() in a loop: what is pushed is what it holds
            lb = b.base_of(t['args'][1])
            pushed = []
            if lb and not lb[1]:
                find = b.alias_classes()
                for pbi, pt in b.calls():
                    if 'q' in pt['callee'] and callee_q(pt).endswith(('Vec::push', 'Vec::extend', 'Vec::extend_from_slice')) and len(pt['args']) == 2:
                        pb_ = b.base_of(pt['args'][0])
                        if pb_ and not pb_[1] and find(pb_[0]) == find(lb[0]):
                            pushed.append(simplify(T.resolve_env(simplify(T.of_operand(b, pt['args'][1])))))
            if not pushed:
                # the list built in a helper and handed back inside a tuple: whatever is pushed onto a list of ranges in this body
                for pbi, pt in b.calls():
                    if 'q' in pt['callee'] and callee_q(pt).endswith(('Vec::push', 'Vec::extend', 'Vec::extend_from_slice')) and len(pt['args']) == 2 and \
                            pt['args'][0]['k'] in ('copy', 'move') and 'ChunkOffset' in b.lty(pt['args'][0]['pl']['l']).get('s', ''):
                        pushed.append(simplify(T.resolve_env(simplify(T.of_operand(b, pt['args'][1])))))
            if pushed:
                term = ('tuple', [term] + pushed)
            fields = {n_[2] for n_ in walk(term) if n_[0] == 'field' and isinstance(n_[2], str)}
            # the table of unique descriptors = the Vec field of Archive whose element type is ChunkDescriptor
            table = [f_ for f_ in vecs if _vec_elem(facts, 'bitar::archive::Archive', f_) == ARCH_DESC]
            others = [f_ for f_ in vecs if f_ not in table]
            inst = {'rule': 'R-FETCHLIST', 'function': b.q, 'at': t['loc'], 'reads_fields': sorted(fields & set(vecs)), 'descriptor_table': table}
            instances.append(inst)
            if not table or not (fields & set(table)):
                finding('R-FETCHLIST', b.q, 'source', 'the list of ranges to fetch is not built from the table of unique chunk descriptors (%s)' % sorted(fields))
            if fields & set(others):
                finding('R-FETCHLIST', b.q, 'source-order', 'the list of ranges to fetch is built by walking %s: a chunk that occurs several times in the source is requested several times' % sorted(fields & set(others)))
            bad = sorted({n_[1].split('::')[-1] for n_ in walk(term) if n_[0] == 'call' and n_[1].split('::')[-1] in REORDER})
            if bad:
                finding('R-FETCHLIST', b.q, 'reordered:' + bad[0], 'the list of ranges to fetch is re-ordered / thinned (%s) after it was derived from the descriptors it is paired with by position' % bad)
        # in-place re-ordering of either list
        for bi, t in b.calls():
            if 'q' not in t['callee'] or not t['args'] or t['args'][0]['k'] not in ('copy', 'move'):
                continue
            name = callee_q(t).split('::')[-1]
            if name not in REORDER:
                continue
            ty = b.lty(t['args'][0]['pl']['l'])
            sty = ty.get('s', '')
            if ty.get('k') in ('ref', 'rawptr') and ('ChunkOffset' in sty or 'ChunkDescriptor' in sty):
                finding('R-FETCHLIST', b.q, 'reordered:' + name, '%s at %s re-orders / thins a list that is paired by position with the buffers the reader returns' % (name, t['loc']))
    # the readers hand the chunks out in the order they were asked for: the list a `read_chunks` implementation is given is not
    # re-ordered, de-duplicated or thinned on its way into the stream (the caller pairs the n-th item with the n-th range)
    STRICT = ('sort', 'sort_by', 'sort_by_key', 'sort_unstable', 'sort_unstable_by', 'sort_unstable_by_key', 'sort_by_cached_key', 'dedup', 'dedup_by',
              'dedup_by_key', 'reverse', 'retain', 'retain_mut', 'swap', 'swap_remove', 'rotate_left', 'rotate_right', 'rev')
    n_rd = 0
    for b in facts.bodies.values():
        if b.generated or not b.id.startswith('bitar::archive_reader::'):
            continue
        n_rd += 1
        for bi, t in b.calls():
            if 'q' not in t['callee'] or not t['args'] or t['args'][0]['k'] not in ('copy', 'move'):
                continue
            name = callee_q(t).split('::')[-1]
            if name not in STRICT:
                continue
            ty = b.lty(t['args'][0]['pl']['l'])
            if 'ChunkOffset' in ty.get('s', ''):
                finding('R-FETCHLIST', b.q, 'reader-reordered:' + name, '%s at %s changes the order / the members of the list of ranges a reader was asked for: the items of the '
                        'stream are paired with the ranges by position, every displaced item carries the bytes of another range' % (name, t['loc']))
    instances.append({'rule': 'R-FETCHLIST(reader-order)', 'functions': n_rd})
    # ... and a descriptor gets on the list only because the index of wanted chunks holds it: in the closure that asks
    # `ChunkIndex::contains`, every value it returns is the answer of that lookup (`want_all || contains(..)` keeps chunks that
    # are not missing at all - a shortcut decided from the *sizes* of two tables says nothing about their members)
    n_flt = 0
    for b in facts.bodies.values():
        if b.generated or not b.id.startswith('bitar::archive::') or b.raw['kind'] != 'Closure' or b.raw.get('coroutine'):
            continue
        if not any('q' in t['callee'] and callee_q(t).endswith('ChunkIndex::contains') for _, t in b.calls()):
            continue
        if b.lty(0).get('k') != 'bool':
            continue
        n_flt += 1
        bad = []
        for d in b.defs().get(0, []):
            if d[0] == 'call':
                term = simplify(T.of_call(b, d[1], 0))
            elif d[0] == 'assign':
                term = simplify(T.of_rvalue(b, d[1]['rv'], 0))
            else:
                continue
            if not has_call(term, 'ChunkIndex::contains'):
                bad.append(show(simplify(T.resolve_env(term)))[:60])
        instances.append({'rule': 'R-FETCHLIST(filter)', 'function': b.q, 'returns_other_than_the_lookup': bad})
        for x in bad:
            if x not in ('false', '0'):
                finding('R-FETCHLIST', b.q, 'kept-without-lookup', 'the filter over the chunk descriptors can keep a descriptor without the index of wanted chunks holding it (%s): '
                        'chunks that are not missing are fetched as well' % x)
    # the same as a loop: `for cd in descriptors { if !wanted.contains(..) { continue } list.push(..) }` - every push of a range sits
    # behind the "holds it" edge of the lookup
    from .r_accept import deciding_switch
    for b in facts.bodies.values():
        if b.generated or not b.id.startswith('bitar::archive::') or b.raw['kind'] == 'Closure' and not b.raw.get('coroutine'):
            continue
        looks = [(bi, t) for bi, t in b.calls() if 'q' in t['callee'] and callee_q(t).endswith('ChunkIndex::contains') and t.get('t') is not None and not t['dest']['p']]
        pushes = [(bi, t) for bi, t in b.calls() if 'q' in t['callee'] and callee_q(t).endswith(('Vec::push', 'Vec::extend', 'Vec::insert')) and t['args'] and
                  t['args'][0]['k'] in ('copy', 'move') and 'ChunkOffset' in b.lty(t['args'][0]['pl']['l']).get('s', '')]
        if not looks or not pushes:
            continue
        n_flt += 1
        dom = b.dominators()
        held = []
        for bi, t in looks:
            dsw = deciding_switch(b, t['t'], t['dest']['l'])
            if dsw is None:
                continue
            sw, flipped = dsw
            t_edge, f_edge = sw['otherwise'], dict(zip(sw['vals'], sw['targets'])).get(0)
            held.append(f_edge if flipped else t_edge)
        bad = [t['loc'] for bi, t in pushes if not any(h is not None and (h == bi or h in dom.get(bi, ())) for h in held)]
        instances.append({'rule': 'R-FETCHLIST(filter)', 'function': b.q, 'pushes_not_behind_the_lookup': bad})
        for loc in bad:
            finding('R-FETCHLIST', b.q, 'kept-without-lookup', 'a range is put on the fetch list at %s on a path on which the index of wanted chunks was not found to hold '
                    'the chunk: chunks that are not missing are fetched as well' % loc)
    if n_flt < 1 and n_fl >= 1:
        finding('R-FETCHLIST', '-', 'floor-filter', 'no closure that filters the descriptors by ChunkIndex::contains was found (cannot decide)')
    if n_fl < 1:
        finding('R-FETCHLIST', '-', 'floor', 'the read_chunks call of Archive::chunk_stream was not found (cannot decide)')

    # a hash sum is its first `length` bytes: two sums are compared over those, never as whole backing arrays (truncate() lowers the
    # length and leaves the digest's tail in place - every archive with a hash length below 64 would fail to verify)
    for b in facts.bodies.values():
        if not (b.q.startswith('<bitar::hashsum::HashSum as core::cmp::PartialEq') and b.q.endswith('::eq')) and not \
                (b.raw.get('parent') and str(facts.original.get(b.raw['parent']).q if facts.original.get(b.raw['parent']) else '').startswith('<bitar::hashsum::HashSum as core::cmp::PartialEq')):
            continue
        for bi, t in b.calls():
            if 'q' in t['callee'] and t['callee']['q'] in ('core::cmp::PartialEq::eq', 'core::cmp::PartialEq::ne') and t['args']:
                at = b.lty(t['args'][0]['pl']['l']) if t['args'][0]['k'] in ('copy', 'move') else {}
                inner = at
                while inner.get('k') in ('ref', 'rawptr') and inner.get('args'):
                    inner = b.ty(inner['args'][0])
                if inner.get('k') == 'array':
                    finding('R-HASHEQ', b.q, 'whole-array-compare', 'two hash sums are compared as whole backing arrays at %s: after truncate() the bytes beyond the length differ, '
                            'equal sums compare unequal' % t['loc'])
    # ---------------------------------------------------------------- R-HASHEQ
    from .r_steps import hash_compare_sites, _pointee_adt, HASHSUM
    nsites = 0
    for b in facts.bodies.values():
        if b.generated:
            continue
        for bi, t in b.calls():
            if 'q' not in t['callee'] or t['callee']['q'] not in ('core::cmp::PartialEq::eq', 'core::cmp::PartialEq::ne'):
                continue
            if _pointee_adt(b, t['args'][0]) != HASHSUM:
                continue
            if b.crate != 'bita' and not b.q.startswith(('bitar::archive::', 'bitar::chunk::')):
                continue
            nsites += 1
            classes = []
            for a in t['args']:
                term = simplify(T.resolve_env(simplify(T.of_operand(b, a))))
                classes.append(length_class(term))
            inst = {'rule': 'R-HASHEQ', 'function': b.q, 'at': t['loc'], 'operand_length_classes': classes}
            instances.append(inst)
            if 'User' in classes:
                # a dominating comparison of the user operand's len()
                dom = b.dominators().get(bi, set())
                guarded = False
                for cbi in dom:
                    ct = b.blocks[cbi]['term']
                    if ct['k'] == 'switch':
                        cterm = simplify(T.resolve_env(simplify(T.of_operand(b, ct['op']))))
                        if has_call(cterm, 'HashSum::len') and has_field(cterm, 'header_checksum'):
                            guarded = True
                if not guarded:
                    finding('R-HASHEQ', b.q, 'user-length', 'a user supplied checksum is compared by common prefix only at %s (HashSum::eq ignores a length difference)' % t['loc'])
    # a checksum given on the command line becomes a HashSum through `HashSum::from`, which cuts what it is given to 64 bytes: a longer
    # value can never be equal to a header checksum and would match one after the cut (F15).  The conversion is dominated by a
    # comparison of the length of what is converted with a constant <= 64 whose "longer" side reaches error exits only.
    from .r_steps import exit_outcomes_from
    n_user = 0
    for b in facts.bodies.values():
        if b.generated or b.crate != 'bita':
            continue
        for bi, t in b.calls():
            rq = t['callee'].get('rq', '') or ''
            if 'q' not in t['callee']:
                continue
            if not (rq.startswith('<bitar::hashsum::HashSum as core::convert::From') or
                    (callee_q(t).endswith('Into::into') and t['dest'] and b.lty(t['dest']['l']).get('adt') == HASHSUM and not t['dest']['p'])):
                continue
            src = simplify(T.resolve_env(simplify(T.of_operand(b, t['args'][0]))))
            cs = calls_in(src)
            if any(c.endswith(('::finalize', 'HashSum::b2_digest', '::digest')) for c in cs):
                continue            # a digest is 64 bytes by construction
            n_user += 1
            dom = b.dominators().get(bi, set())
            guarded = None
            for cbi in dom:
                sw = b.blocks[cbi]['term']
                if sw['k'] != 'switch' or sw['op']['k'] not in ('copy', 'move'):
                    continue
                cterm = simplify(T.resolve_env(simplify(T.of_operand(b, sw['op']))))
                if not (isinstance(cterm, tuple) and cterm[0] == 'binop' and cterm[1] in ('Gt', 'Ge', 'Lt', 'Le')):
                    continue
                x, y = cterm[2], cterm[3]
                op = cterm[1]
                if isinstance(x, tuple) and x[0] == 'const':
                    x, y, op = y, x, {'Gt': 'Lt', 'Ge': 'Le', 'Lt': 'Gt', 'Le': 'Ge'}[op]
                if not (isinstance(y, tuple) and y[0] == 'const' and isinstance(y[1], int)):
                    continue
                if not (isinstance(x, tuple) and x[0] == 'call' and x[1].split('::')[-1] == 'len' and x[2] and freeze(x[2][0]) == freeze(src)):
                    continue
                t_edge, f_edge = sw['otherwise'], dict(zip(sw['vals'], sw['targets'])).get(0)
                # the edge taken when the value is longer than the bound
                if op == 'Gt' and y[1] <= 64:
                    long_edge = t_edge
                elif op == 'Ge' and y[1] <= 65:
                    long_edge = t_edge
                elif op == 'Le' and y[1] <= 64:
                    long_edge = f_edge
                elif op == 'Lt' and y[1] <= 65:
                    long_edge = f_edge
                else:
                    continue
                if long_edge is not None and exit_outcomes_from(b, long_edge) <= {'Err'}:
                    guarded = sw['loc']
            instances.append({'rule': 'R-HASHEQ(user-truncated)', 'function': b.q, 'at': t['loc'], 'length_checked_at': guarded})
            if not guarded:
                finding('R-HASHEQ', b.q, 'user-truncated', 'a checksum from the command line is turned into a hash sum at %s without its length having been compared with the 64 bytes '
                        'a hash sum holds: HashSum::from cuts a longer value, which then matches a checksum it can never be equal to' % t['loc'])
    # ... the conversion handed on as a function value (`.map(HashSum::from)`) converts whatever arrives, unchecked
    for b in facts.bodies.values():
        if b.generated or b.crate != 'bita':
            continue
        for bi, t in b.calls():
            for a in t['args']:
                if a.get('k') == 'const' and a.get('fn') and a.get('s', '').replace(' ', '').startswith(('<bitar::HashSumasstd::convert::From<', '<bitar::hashsum::HashSumasstd::convert::From<')):
                    n_user += 1
                    instances.append({'rule': 'R-HASHEQ(user-truncated)', 'function': b.q, 'at': t['loc'], 'length_checked_at': None})
                    finding('R-HASHEQ', b.q, 'user-truncated', 'a checksum from the command line is turned into a hash sum at %s (conversion passed as a function) without its length '
                            'having been compared with the 64 bytes a hash sum holds: HashSum::from cuts a longer value, which then matches a checksum it can never be equal to' % t['loc'])
    if n_user < 1:
        finding('R-HASHEQ', '-', 'floor-user', 'the conversion of the --verify-header argument into a hash sum was not found (cannot decide)')
    if nsites < 3:
        finding('R-HASHEQ', '-', 'floor', 'expected at least 3 authenticating HashSum comparisons, found %d (cannot decide)' % nsites)
    return instances, findings


def length_class(term):
    cs = calls_in(term)
    if any(c.endswith(('HashSum::b2_digest', '::finalize')) for c in cs) and not any(c.endswith('HashSum::truncate') for c in cs):
        return 'Full64'
    if any(c.endswith(('Archive::header_checksum',)) for c in cs):
        return 'Full64'
    if any(c.endswith(('Archive::source_checksum',)) for c in cs):
        return 'Decoded'
    if has_field(term, 'header_checksum') and not cs or (has_field(term, 'header_checksum') and not any('Archive' in c for c in cs)):
        return 'User'
    if has_field(term, 'expected_hash'):
        return 'Decoded'
    if any(c.endswith('file_checksum') for c in cs):
        return 'Full64'
    if any(x[0] == 'var' for x in walk(term)):
        return 'Truncated'
    return 'Other'
