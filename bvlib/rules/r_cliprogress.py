"""R-CLIFLAGS(progress): the number of chunks in flight comes from --buffered-chunks and is handed to `buffered(n)` in every
pipeline of clone / compress / diff; with n = 0 the combinator never polls its inner stream and the command waits forever (F20:
`--buffered-chunks 0` was accepted).  The zero has to be refused where the argument is parsed - by a parser function of the tool
whose zero edge leads to an error, by a ranged value parser, or by a comparison with a constant where the value is fetched."""
from ..facts import callee_q
from ..terms import Terms, simplify, show, walk
from .r_steps import exit_outcomes_from

ARG = '"buffered-chunks"'


def _zero_edge_refused(b, T):
    """a switch on an integer in this body whose 0 edge reaches error exits only (`Ok(0) => Err(..)`, `if n == 0 { return Err }`, `n < 1`)"""
    for bi in b.live:
        sw = b.blocks[bi]['term']
        if sw['k'] != 'switch' or sw['op']['k'] not in ('copy', 'move'):
            continue
        term = simplify(T.resolve_env(simplify(T.of_operand(b, sw['op']))))
        if isinstance(term, tuple) and term[0] == 'discr':
            continue
        from .r_chunker import place_ty
        ty = place_ty(b, sw['op']['pl'])
        if ty.get('k') in ('int', 'uint') and 0 in sw['vals']:
            tgt = sw['targets'][sw['vals'].index(0)]
            if exit_outcomes_from(b, tgt) <= {'Err'}:
                return sw['loc']
        if isinstance(term, tuple) and term[0] == 'binop' and term[1] in ('Eq', 'Ne', 'Lt', 'Le', 'Gt', 'Ge'):
            consts = [x[1] for x in (term[2], term[3]) if isinstance(x, tuple) and x[0] == 'const' and isinstance(x[1], int)]
            if consts and consts[0] in (0, 1):
                t_edge, f_edge = sw['otherwise'], dict(zip(sw['vals'], sw['targets'])).get(0)
                for e in (t_edge, f_edge):
                    if e is not None and exit_outcomes_from(b, e) <= {'Err'}:
                        return sw['loc']
    return None


def run(facts, cg):
    T = Terms(facts)
    instances, findings = [], []
    n_def = 0
    for b in facts.bodies.values():
        if b.generated or b.crate != 'bita':
            continue
        news = [(bi, t) for bi, t in b.calls() if 'q' in t['callee'] and callee_q(t).endswith('Arg::new') and t['args'] and t['args'][0].get('k') == 'const'
                and ARG in str(t['args'][0].get('s', '')) + str(t['args'][0].get('str', ''))]
        if not news:
            # the term form: Arg::new("buffered-chunks")
            news = [(bi, t) for bi, t in b.calls() if 'q' in t['callee'] and callee_q(t).endswith('Arg::new') and
                    any(n_[0] == 'const' and n_[1] == ARG for n_ in walk(simplify(T.of_operand(b, t['args'][0]))))]
        if not news:
            continue
        n_def += 1
        how = None
        for bi, t in b.calls():
            if 'q' not in t['callee']:
                continue
            name = callee_q(t).split('::')[-1]
            if name == 'value_parser' and len(t['args']) >= 2:
                a = t['args'][1]
                fn = a.get('fn') if a.get('k') == 'const' else None
                pb = next((x for x in facts.bodies.values() if fn and (x.id == fn or x.q == fn)), None)
                if pb is not None:
                    at = _zero_edge_refused(pb, T)
                    if at:
                        how = 'parser function %s refuses 0 at %s' % (pb.q, at)
            if name == 'range' and 'value_parser' in callee_q(t).lower() or (name == 'range' and 'Ranged' in callee_q(t)):
                rng = simplify(T.resolve_env(simplify(T.of_operand(b, t['args'][1])))) if len(t['args']) > 1 else None
                lows = [n_ for n_ in walk(rng) if n_[0] == 'const' and isinstance(n_[1], int)] if rng else []
                if lows and lows[0][1] >= 1:
                    how = 'ranged value parser starting at %d' % lows[0][1]
        # ... or where the value is fetched
        if not how:
            for g in facts.bodies.values():
                if g.generated or g.crate != 'bita':
                    continue
                if any('q' in t['callee'] and callee_q(t).endswith('ArgMatches::get_one') and
                       any(n_[0] == 'const' and n_[1] == ARG for a in t['args'] for n_ in walk(simplify(T.of_operand(g, a)))) for _, t in g.calls()):
                    at = _zero_edge_refused(g, T)
                    if at:
                        how = 'compared with a constant where it is fetched (%s)' % at
        instances.append({'rule': 'R-CLIFLAGS(progress)', 'function': b.q, 'argument': 'buffered-chunks', 'zero_refused_by': how})
        if not how:
            findings.append({'rule': 'R-CLIFLAGS', 'key': 'R-CLIFLAGS|%s|progress:zero-concurrency' % b.q, 'function': b.q,
                             'what': '--buffered-chunks 0 is accepted: the value is handed to buffered(n) in every pipeline of clone and compress, and with no chunk in flight '
                                     'the stream is never polled - the command waits forever'})
    # ---- ... and what reaches `buffered(n)` is that value as it is.  A count derived by arithmetic that can round down to nothing
    # (`min(n, 1 GiB / max_chunk_size)`: 0 for an archive that declares chunks above 1 GiB - written twice, independently, as a
    # "memory cap") brings the zero back behind the parser's back.  Reducing operations are fine under a final `max(.., >= 1)`.
    REDUCING_BIN = ('Div', 'Sub', 'Shr', 'Rem', 'BitAnd')
    REDUCING_CALL = ('min', 'saturating_sub', 'checked_div', 'checked_sub', 'wrapping_sub', 'clamp', 'div_euclid', 'isqrt', 'ilog2', 'checked_rem', 'saturating_div')

    def origins(b, term, depth=0):
        """the term with the parameters of private helpers replaced by what their callers pass (all combinations, bounded)"""
        params = [n_ for n_ in walk(term) if n_[0] == 'param']
        if not params or depth > 3:
            return [term]
        p0 = params[0]
        sites = cg.calls_to(p0[1])
        if not sites:
            return [term]
        out = []
        for (cb, cbi, ct) in sites[:6]:
            if p0[2] >= len(ct['args']):
                continue
            at = simplify(T.resolve_env(simplify(T.of_operand(cb, ct['args'][p0[2]]))))
            out += origins(cb, _subst(term, p0, at), depth + 1)
        return out or [term]

    def _subst(t, old, new):
        if t == old:
            return new
        if isinstance(t, tuple):
            return tuple(_subst(x, old, new) for x in t)
        if isinstance(t, list):
            return [_subst(x, old, new) for x in t]
        if isinstance(t, dict):
            return {k: _subst(v, old, new) for k, v in t.items()}
        return t

    def reducing(t):
        if isinstance(t, tuple) and t[0] == 'call' and t[1].split('::')[-1] == 'max' and any(isinstance(a, tuple) and a[0] == 'const' and isinstance(a[1], int) and a[1] >= 1 for a in t[2]):
            return None          # floored at a positive constant
        if isinstance(t, tuple) and t[0] == 'binop' and t[1] in REDUCING_BIN:
            return t[1]
        if isinstance(t, tuple) and t[0] == 'call' and t[1].split('::')[-1] in REDUCING_CALL:
            return t[1].split('::')[-1]
        if isinstance(t, tuple):
            for x in t[1:]:
                for y in (x if isinstance(x, list) else x.values() if isinstance(x, dict) else [x]):
                    r_ = reducing(y)
                    if r_:
                        return r_
        return None
    n_buf = 0
    for b in facts.bodies.values():
        if b.generated or not b.id.startswith(('bita::', 'bitar::')):
            continue
        for bi, t in b.calls():
            if 'q' not in t['callee'] or callee_q(t).split('::')[-1] not in ('buffered', 'buffer_unordered') or len(t['args']) < 2:
                continue
            n_buf += 1
            term = simplify(T.resolve_env(simplify(T.of_operand(b, t['args'][1]))))
            alts = origins(b, term)
            extra = []
            for a_ in alts:
                extra += [a_] + [x for x in __import__('bvlib.terms', fromlist=['var_alternatives']).var_alternatives(T, b, a_)]
            why = next((reducing(a_) for a_ in extra if reducing(a_)), None)
            instances.append({'rule': 'R-CLIFLAGS(progress)', 'function': b.q, 'buffered_at': t['loc'], 'count': show(alts[0])[:80], 'derived_by_reducing_arithmetic': why})
            if why:
                findings.append({'rule': 'R-CLIFLAGS', 'key': 'R-CLIFLAGS|%s|progress:derived-concurrency' % b.q, 'function': b.q,
                                 'what': 'the number of chunks in flight handed to buffered() at %s is derived by %s: it can come out as 0 (an archive that declares huge chunks, a '
                                         'small option value) and buffered(0) never polls its inner stream - the command hangs' % (t['loc'], why)})
    if n_buf < 4:
        findings.append({'rule': 'R-CLIFLAGS', 'key': 'R-CLIFLAGS|-|floor-progress-buffered', 'function': '-', 'what': 'expected the buffered() stages of the pipelines, found %d (cannot decide)' % n_buf})
    # ---- R-DICT-WIRING(metadata-entries): what goes into the metadata map of the dictionary is what the user gave with --metadata-value /
    # --metadata-file and nothing else.  An entry the tool adds by itself (the name of the input file, "like gzip does") makes the
    # bytes of the archive depend on how the input was delivered - file or pipe, and under which name.
    n_meta = 0
    ADDERS = ('insert', 'entry', 'extend', 'append', 'try_insert', 'or_insert', 'or_insert_with')
    for b in facts.bodies.values():
        if b.generated or b.crate != 'bita' or not b.id.startswith('bita::compress_cmd::'):
            continue
        for bi, t in b.calls():
            if 'q' not in t['callee'] or not callee_q(t).startswith('alloc::collections::btree::map::') or callee_q(t).split('::')[-1] not in ADDERS or len(t['args']) < 2:
                continue
            key = simplify(T.resolve_env(simplify(T.of_operand(b, t['args'][1]))))
            n_meta += 1
            from_opts = any(n_[0] == 'field' and n_[2] in ('metadata_strings', 'metadata_files') for n_ in walk(key))
            # reported only where the key is positively something else: a string literal, or derived from another option (the input
            # path ..) - a key that arrives through a closure parameter or a helper is taken to be the user's (the wiring of the
            # options themselves is R-DICT-WIRING's subject)
            # (a string literal, or a named string constant of the tool)
            literal = [n_[1] for n_ in walk(key) if n_[0] == 'const' and isinstance(n_[1], str) and (n_[1].startswith('"') or n_[1].split('::')[-1].isupper())]
            other_opt = [n_[2] for n_ in walk(key) if n_[0] == 'field' and n_[2] in ('input', 'output', 'temp_file', 'chunker_config', 'compression', 'hash_length')]
            foreign = (literal or other_opt) and not from_opts
            instances.append({'rule': 'R-DICT-WIRING(metadata-entries)', 'function': b.q, 'at': t['loc'], 'key_from_the_options': from_opts, 'key_made_up_by_the_tool': bool(foreign)})
            if foreign:
                findings.append({'rule': 'R-DICT-WIRING', 'key': 'R-DICT-WIRING|%s|metadata-extra-entry' % b.q.split('::{closure')[0], 'function': b.q,
                                 'what': 'an entry is added to the metadata of the archive at %s whose key (%s) does not come from --metadata-value / --metadata-file: the archive '
                                         'records something the user did not ask for, its bytes depend on it' % (t['loc'], show(key)[:50])})
    if n_def < 1:
        findings.append({'rule': 'R-CLIFLAGS', 'key': 'R-CLIFLAGS|-|floor-progress', 'function': '-', 'what': 'the definition of --buffered-chunks was not found (cannot decide)'})
    return instances, findings
