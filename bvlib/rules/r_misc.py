"""Smaller structural rules: seek-before-write, early end => error, both magics, index key consistency,
copy-arm roles, hashed header range, futures that are never awaited."""
from ..facts import callee_q, succs
from ..terms import Terms, simplify, has_call, has_field, show, walk, calls_in
from ..paths import Explorer, Rule
from .r_steps import exit_outcomes_from, OK_OUTCOMES
from .r_err import uses_index

AW = 'tokio::io::util::async_write_ext::AsyncWriteExt::'
AS = 'tokio::io::util::async_seek_ext::AsyncSeekExt::'
AR = 'tokio::io::util::async_read_ext::AsyncReadExt::'


CLONE_OUT = 'bitar::clone_output::CloneOutput'


def out_field(facts):
    """name of the field of CloneOutput<T> that is the output itself (the one of the parameter type)"""
    f_ = facts.fields_by_role(CLONE_OUT).get('param') or []
    return f_[0] if len(f_) == 1 else None


def index_field(facts):
    f_ = facts.fields_by_role(CLONE_OUT).get('bitar::chunk_index::ChunkIndex') or []
    return f_[0] if len(f_) == 1 else None


class LastOp(Rule):
    """state = last operation on the output field of CloneOutput: None | ('seek', shown term, fields read) | 'write' | 'read'"""
    init = None

    def __init__(self, b, T, field):
        self.b, self.T, self.field = b, T, field
        self.writes = []     # (loc, state before)
        self.reads = []

    def on_term(self, b, bi, t, st):
        if t['k'] != 'call' or 'q' not in t['callee'] or not t['args']:
            return st
        gq = t['callee']['q']
        base = b.base_of(t['args'][0])
        if not base or not any(x[0] == CLONE_OUT and x[1] == self.field for x in base[1]):
            return st
        if gq == AS + 'seek':
            term = simplify(self.T.of_operand(b, t['args'][1]))
            arith = any(n_[0] == 'binop' or (n_[0] == 'call' and n_[1].split('::')[-1] in ('saturating_add', 'wrapping_add', 'checked_add', 'saturating_sub', 'wrapping_sub')) for n_ in walk(term))
            fields = tuple(sorted({n_[2] for n_ in walk(term) if n_[0] == 'field' and isinstance(n_[2], str)}))
            return ('seek', show(term)[:120] + (' [arithmetic]' if arith else ''), fields)
        if gq.startswith(AW + 'write'):
            self.writes.append((t['loc'], st))
            return 'write'
        if gq.startswith(AR + 'read'):
            self.reads.append((t['loc'], st))
            return 'read'
        return st


def _place_ty(b, pl):
    ty = b.lty(pl['l'])
    for p in pl['p']:
        k = p['k']
        if k == 'deref':
            a = ty.get('args') or []
            if not a:
                return {}
            ty = b.ty(a[0])
        elif k == 'field':
            if p.get('ty') is None:
                return {}
            ty = b.ty(p['ty'])
        elif k != 'downcast':
            return {}
    return ty


def _classify_ret(t):
    """class of a value returned by a poll function: Err / End (Ready(None)) / Item (Ready(Some(Ok))) / Pending / Other"""
    nodes = list(walk(t))
    if any(n[0] == 'agg' and n[1] == 'core::result::Result' and n[2] == 'Err' for n in nodes) or \
            any(n[0] == 'call' and n[1].endswith('from_residual') for n in nodes):
        return 'Err'
    if isinstance(t, tuple) and t[0] == 'agg' and t[2] == 'Pending':
        return 'Pending'
    if any(n[0] == 'agg' and n[1] == 'core::option::Option' and n[2] == 'None' for n in nodes):
        return 'End'
    if any(n[0] == 'agg' and n[1] == 'core::result::Result' and n[2] == 'Ok' for n in nodes):
        return 'Item'
    return 'Other'


def exit_classes_from(b, T, start, avoid=()):
    from ..paths import Explorer, Rule

    class R(Rule):
        init = 'Unassigned'

        def __init__(self):
            self.out = set()

        def on_stmt(self, b_, bi, st, state):
            if st['k'] == 'assign' and not st['pl']['p'] and st['pl']['l'] == 0:
                return _classify_ret(simplify(T.of_rvalue(b_, st['rv'], 0)))
            return state

        def on_term(self, b_, bi, t, state):
            if bi in avoid:
                return []           # do not walk on through these blocks (e.g. the loop condition: one iteration only)
            if t['k'] == 'call' and not t['dest']['p'] and t['dest']['l'] == 0:
                return 'Err' if 'q' in t['callee'] and callee_q(t).endswith('from_residual') else 'Other'
            return state

        def on_exit(self, b_, bi, state, outcome):
            self.out.add(state)
    r = R()
    Explorer(b, r, start=start).run()
    return r.out


def _reach_blocks(b, start):
    seen, w = set(), [start]
    while w:
        x = w.pop()
        if x in seen or b.blocks[x].get('cleanup'):
            continue
        seen.add(x)
        w.extend(succs(b.blocks[x]['term']))
    return seen


def _buffer_root_local(b, op, depth=0):
    """the local a `&mut buf[..]` / `&mut buf` operand borrows from (through index / deref_mut / as_mut calls)"""
    if op['k'] not in ('copy', 'move') or depth > 8:
        return None
    base = b.base_of(op)
    if not base:
        return None
    ds = b.defs().get(base[0], [])
    if len(ds) == 1 and ds[0][0] == 'call' and 'q' in ds[0][1]['callee'] and ds[0][1]['args'] and \
            callee_q(ds[0][1]).split('::')[-1] in ('index_mut', 'index', 'deref_mut', 'deref', 'as_mut', 'borrow_mut', 'as_mut_slice'):
        return _buffer_root_local(b, ds[0][1]['args'][0], depth + 1)
    return base[0]


def _borrows_region_local(b, a, region):
    """is the `&mut` operand a borrow of something that only exists inside the given region (an iterator built for an
    `all(..)` inside a debug_assert, say)?  Then what it mutates is gone with the region."""
    base = b.base_of(a)
    if not base:
        return False
    l = base[0]
    if l <= b.arg_count:
        return False
    ds = b.defs().get(l, [])
    if not ds:
        return False
    return all((d[2] if len(d) > 2 else None) in region for d in ds) and not any(x[1] == 'deref' for x in base[1] if isinstance(x, tuple) and len(x) > 1)


def _variant_edges(b, local, idx, depth=0, conveyors=False):
    """[(switch block, target)] taken when the enum value in `local` is variant number idx (followed through moves and `?`)"""
    out = []
    if depth > 3:
        return out
    for bi in b.live:
        for st in b.blocks[bi]['stmts']:
            if st['k'] != 'assign' or st['pl']['p']:
                continue
            rv = st['rv']
            if rv['k'] == 'discr' and not rv['pl']['p'] and rv['pl']['l'] == local:
                d = st['pl']['l']
                for sbi in b.live:
                    sw = b.blocks[sbi]['term']
                    if sw['k'] == 'switch' and sw['op']['k'] in ('copy', 'move') and not sw['op']['pl']['p'] and sw['op']['pl']['l'] == d:
                        if idx in sw['vals']:
                            out.append((sbi, sw['targets'][sw['vals'].index(idx)]))
                        elif len(sw['vals']) >= 1:
                            out.append((sbi, sw['otherwise']))
            elif rv['k'] == 'use' and rv['op']['k'] in ('copy', 'move') and not rv['op']['pl']['p'] and rv['op']['pl']['l'] == local:
                out += _variant_edges(b, st['pl']['l'], idx, depth + 1, conveyors)
        t = b.blocks[bi]['term']
        if t['k'] == 'call' and 'q' in t['callee'] and t['callee']['q'] == 'core::ops::try_trait::Try::branch' and t['args'] and \
                t['args'][0]['k'] in ('copy', 'move') and not t['args'][0]['pl']['p'] and t['args'][0]['pl']['l'] == local and not t['dest']['p']:
            out += _variant_edges(b, t['dest']['l'], idx, depth + 1, conveyors)     # Err -> Break(1), Ok -> Continue(0)
        elif conveyors and t['k'] == 'call' and 'q' in t['callee'] and t['args'] and t['args'][0]['k'] in ('copy', 'move') and \
                not t['args'][0]['pl']['p'] and t['args'][0]['pl']['l'] == local and not t['dest']['p'] and \
                callee_q(t).split('::')[-1] in ('context', 'with_context', 'map_err', 'map', 'copied', 'cloned', 'as_ref', 'as_deref', 'as_mut') and \
                b.lty(t['dest']['l']).get('adt') == b.lty(local).get('adt'):
            out += _variant_edges(b, t['dest']['l'], idx, depth + 1, conveyors)   # Err stays Err, Ok stays Ok
    return out


def run(facts, cg):
    T = Terms(facts)
    instances, findings = [], []

    def finding(rule, where, what, detail):
        key = '%s|%s|%s' % (rule, where, what)
        if key not in {x['key'] for x in findings}:
            findings.append({'rule': rule, 'key': key, 'function': where, 'what': detail})

    # ---------------------------------------------------------------- R-SEEKWRITE (C13): every write/read of the output is preceded by a seek to an explicit offset
    n = 0
    of = out_field(facts)
    per_body = {}
    for b in facts.bodies.values():
        if b.crate != 'bitar' or not b.id.startswith('bitar::clone_output::') or b.generated or of is None:
            continue
        r = LastOp(b, T, of)
        Explorer(b, r).run()
        per_body[b.id] = r
        for loc, st in r.writes + r.reads:
            n += 1
            ok = isinstance(st, tuple) and st[0] == 'seek' and 'SeekFrom::Start' in st[1] and '[arithmetic]' not in st[1]
            if not ok:
                finding('R-SEEKWRITE', b.q, 'unpositioned@%s' % ('write' if (loc, st) in r.writes else 'read'),
                        'the clone output is accessed at %s without an immediately preceding seek to an absolute offset (last operation: %s)' % (loc, st))
        if r.writes or r.reads:
            instances.append({'rule': 'R-SEEKWRITE', 'function': b.q, 'writes': [(l, s[1] if isinstance(s, tuple) else s) for l, s in r.writes],
                              'reads': [(l, s[1] if isinstance(s, tuple) else s) for l, s in r.reads]})
    if n < 3 or of is None:
        finding('R-SEEKWRITE', '-', 'floor', 'expected write and read sites on the output field of CloneOutput, found %d (cannot decide)' % n)

    # ---------------------------------------------------------------- R-EARLYEND (C08): a body that ends early is an error, never a short chunk
    # Sites are found by what they do, not by what they are called:
    #  (1) HTTP chunk reader  = a body of module http_reader that dispatches on `None` from polling another stream
    #  (2) HTTP read_at        = the coroutine of the ArchiveReader::read_at impl in module http_reader
    #  (3,4) local readers     = the bodies of module io_reader that read (read_buf / poll_read / read)
    #  (5) first-error stream  = the Stream::poll_next impl in module archive whose Self has a field of its parameter type
    def reads_something(b_):
        return any('q' in t_['callee'] and t_['callee']['q'].split('::')[-1] in ('read_buf', 'poll_read', 'read', 'read_exact', 'read_to_end')
                   and ('AsyncRead' in t_['callee']['q'] or 'io::Read' in t_['callee']['q']) for _, t_ in b_.calls())
    n_sites = {'http-chunks': 0, 'http-read_at': 0, 'io': 0, 'first-error': 0}
    for b in facts.bodies.values():
        if b.generated or b.crate != 'bitar':
            continue
        par = facts.original.get(b.raw.get('parent') or '')
        in_http = b.id.startswith('bitar::archive_reader::http_reader::')
        in_io = b.id.startswith('bitar::archive_reader::io_reader::')
        if in_http and b.raw['kind'] != 'Closure' or (in_http and b.raw.get('coroutine')):
            # (1) path form: when the body stream of the current request ends (`None`) while the reader still waits for bytes of
            # a chunk, every way out is an error item - never the end of the chunk stream, never a chunk
            ends = []
            for sbi in b.live:
                sw = b.blocks[sbi]['term']
                if sw['k'] != 'switch' or sw['op']['k'] not in ('copy', 'move'):
                    continue
                for d_ in b.defs().get(sw['op']['pl']['l'], []):
                    if d_[0] == 'assign' and d_[1]['rv']['k'] == 'discr':
                        pl = d_[1]['rv']['pl']
                        pty = _place_ty(b, pl)
                        term = simplify(T.of_place(b, pl))
                        if pty.get('adt') == 'core::option::Option' and (has_call(term, 'poll_next_unpin') or has_call(term, 'Stream::poll_next')) \
                                and 0 in sw['vals']:
                            ends.append((sbi, sw['targets'][sw['vals'].index(0)]))
            # the same test handed to a combinator: `item.unwrap_or(Err(UnexpectedEnd))`, `item.ok_or(UnexpectedEnd)` - the early
            # end is what the error arm of the result does
            for cbi, ct in b.calls():
                if 'q' not in ct['callee'] or ct['dest']['p'] or not ct['args']:
                    continue
                name = callee_q(ct)
                if not name.startswith('core::option::Option::') or name.split('::')[-1] not in ('unwrap_or', 'ok_or', 'ok_or_else', 'unwrap_or_else'):
                    continue
                src = simplify(T.of_operand(b, ct['args'][0]))
                if not (has_call(src, 'poll_next_unpin') or has_call(src, 'Stream::poll_next')):
                    continue
                if name.endswith('::unwrap_or'):
                    dflt = simplify(T.of_operand(b, ct['args'][1]))
                    if not (isinstance(dflt, tuple) and dflt[0] == 'agg' and dflt[2] == 'Err'):
                        continue
                elif name.endswith('::unwrap_or_else'):
                    continue
                if b.lty(ct['dest']['l']).get('adt') != 'core::result::Result':
                    continue
                for e in _variant_edges(b, ct['dest']['l'], 1):
                    ends.append(e)
            if ends:
                n_sites['http-chunks'] += 1
                classes = set()
                for sbi, tgt in ends:
                    classes |= exit_classes_from(b, T, tgt)
                instances.append({'rule': 'R-EARLYEND', 'function': b.q, 'body_end_edges': len(ends), 'exits_after_body_end': sorted(classes)})
                if classes - {'Err'}:
                    finding('R-EARLYEND', b.q, 'http-chunks-not-always-error', 'when the HTTP body ends while chunk data is still expected the reader can leave with %s '
                            'instead of an error: the remaining chunks are silently dropped' % sorted(classes - {'Err'}))
        if b.raw.get('coroutine') and par is not None and par.q.endswith(' as bitar::archive_reader::ArchiveReader>::read_at') and in_http:
            n_sites['http-read_at'] += 1
            ok = any(st['k'] == 'assign' and st['rv']['k'] == 'agg' and st['rv'].get('vname') == 'UnexpectedEnd'
                     for bi in b.live for st in b.blocks[bi]['stmts'])
            instances.append({'rule': 'R-EARLYEND', 'function': b.q, 'early_end_is_error': ok})
            if not ok:
                finding('R-EARLYEND', b.q, 'http-read_at', 'a short HTTP response to read_at is not turned into UnexpectedEnd')
        if in_io and reads_something(b):
            n_sites['io'] += 1
            def _mentions_eof(b_):
                return any('UnexpectedEof' in show(simplify(T.of_rvalue(b_, st['rv'], 0)))
                           for bi in b_.live for st in b_.blocks[bi]['stmts'] if st['k'] == 'assign') or \
                    any(any(a['k'] == 'const' and 'UnexpectedEof' in str(a.get('s')) for a in t['args']) for bi, t in b_.calls())
            # (also inside a closure of this body: `outcome.and_then(|()| match received { 0 => Err(UnexpectedEof..), n => Ok(n) })`)
            ok = _mentions_eof(b) or any(_mentions_eof(c_) for c_ in facts.bodies.values() if c_.raw['kind'] == 'Closure' and (c_.raw.get('parent') or '') == b.id)
            inst_io = {'rule': 'R-EARLYEND', 'function': b.q, 'early_end_is_error': ok}
            instances.append(inst_io)
            if not ok:
                finding('R-EARLYEND', b.q, 'io-eof', 'a read of zero bytes before the chunk is complete is not turned into UnexpectedEof')
            # path form for the chunk stream: while chunks remain (inside one turn of the loop over the chunk list) there is no way
            # out that ends the stream - only the loop condition itself ends it
            if b.raw['kind'] != 'Closure' or not b.raw.get('coroutine'):
                for sbi in b.live:
                    sw = b.blocks[sbi]['term']
                    if sw['k'] != 'switch':
                        continue
                    cterm = simplify(T.of_operand(b, sw['op']))
                    if not (isinstance(cterm, tuple) and cterm[0] == 'binop' and cterm[1] in ('Lt', 'Le', 'Gt', 'Ge', 'Ne', 'Eq')):
                        continue
                    # the loop condition: a counter field of the reader against the length of its list of requested chunks
                    io_roles = facts.fields_by_role('bitar::archive_reader::io_reader::IoChunkReader')
                    lens = [n_ for n_ in walk(cterm) if n_[0] == 'call' and n_[1].split('::')[-1] == 'len' and
                            any(has_field(n_, f_) for f_ in (io_roles.get('alloc::vec::Vec') or []))]
                    cnts = [x for x in (cterm[2], cterm[3]) if isinstance(x, tuple) and x[0] == 'field' and x[2] in (io_roles.get('usize') or [])]
                    if not (lens and cnts):
                        continue
                    # the edge on which chunks remain: the one from which the read is reachable
                    reads_b = {rbi for rbi, rt in b.calls() if 'q' in rt['callee'] and 'AsyncRead' in rt['callee']['q']}
                    for tgt in set(sw['targets']) | {sw['otherwise']}:
                        if _reach_blocks(b, tgt) & reads_b and sbi in _reach_blocks(b, tgt):
                            cls = exit_classes_from(b, T, tgt, avoid={sbi})
                            inst_io['exits_while_chunks_remain'] = sorted(cls)
                            if 'End' in cls:
                                finding('R-EARLYEND', b.q, 'io-chunks-end-with-chunks-left', 'the local chunk reader can end its stream (Ready(None)) while requested '
                                        'chunks remain: an archive cut at a chunk boundary is taken for complete')
        if b.q.endswith(' as futures_core::stream::Stream>::poll_next') and b.id.startswith('bitar::archive::'):
            self_ty = b.q[1:b.q.index(' as ')]
            roles = facts.fields_by_role(self_ty)
            if not roles.get('param'):
                continue
            n_sites['first-error'] += 1
            state_fields = [f_ for k_, v_ in roles.items() if k_ != 'param' for f_ in v_]
            # (a) a state field is written on every path that has seen an Err item of the inner stream
            err_edges = []
            for sbi in b.live:
                sw = b.blocks[sbi]['term']
                if sw['k'] != 'switch' or sw['op']['k'] not in ('copy', 'move'):
                    continue
                for d_ in b.defs().get(sw['op']['pl']['l'], []):
                    if d_[0] == 'assign' and d_[1]['rv']['k'] == 'discr' and _place_ty(b, d_[1]['rv']['pl']).get('adt') == 'core::result::Result' and 1 in sw['vals']:
                        err_edges.append(sw['targets'][sw['vals'].index(1)])
            store_blocks = {bi for bi in b.live for st in b.blocks[bi]['stmts']
                            if st['k'] == 'assign' and st['pl']['p'] and st['pl']['p'][-1]['k'] == 'field' and st['pl']['p'][-1].get('n') in state_fields}
            from .r_readers import _all_paths_hit
            remembered = bool(err_edges) and all(_all_paths_hit(b, e, store_blocks) for e in err_edges)
            # (b) that state is looked at before the inner stream is polled, with a way out that ends the stream
            ends_early = False
            polls = [bi for bi, t in b.calls() if 'q' in t['callee'] and ('poll_next' in callee_q(t))]
            for sbi in b.live:
                sw = b.blocks[sbi]['term']
                if sw['k'] != 'switch':
                    continue
                cterm = simplify(T.of_operand(b, sw['op']))
                if any(has_field(cterm, f_) for f_ in state_fields):
                    for tgt in set(sw['targets']) | {sw['otherwise']}:
                        reach = _reach_blocks(b, tgt)
                        if not (reach & set(polls)) and 'End' in exit_classes_from(b, T, tgt):
                            ends_early = True
            instances.append({'rule': 'R-EARLYEND', 'function': b.q, 'state_fields': state_fields, 'error_remembered': remembered, 'ends_after_error': ends_early})
            if not (remembered and ends_early):
                finding('R-EARLYEND', b.q, 'first-error-flag', 'the chunk stream does not stop after its first error')
    missing = [k for k, v in n_sites.items() if v < (2 if k == 'io' else 1)]
    if missing:
        finding('R-EARLYEND', '-', 'floor', 'early-end sites not found: %s (http chunks, http read_at, two local readers, first-error stream): cannot decide' % missing)

    # ---------------------------------------------------------------- R-MAGIC (C17): both file magics are accepted
    for b in facts.bodies.values():
        if b.q.endswith('Archive::verify_pre_header'):
            cmps = [(bi, t) for bi, t in b.calls() if 'q' in t['callee'] and t['callee']['q'] in ('core::cmp::PartialEq::ne', 'core::cmp::PartialEq::eq')]
            # the rejecting exit must be reachable only when *every* magic comparison says "different"
            instances.append({'rule': 'R-MAGIC', 'function': b.q, 'magic_comparisons': len(cmps)})
            if len(cmps) < 2:
                finding('R-MAGIC', b.q, 'magics', 'verify_pre_header compares the file magic against %d constant(s); the current and the legacy magic must both be accepted' % len(cmps))
            else:
                for bi, t in cmps:
                    sw = b.blocks[t['t']]['term'] if t['t'] is not None else None
                    if not sw or sw['k'] != 'switch':
                        continue
                    is_ne = t['callee']['q'].endswith('::ne')
                    true_t = sw['otherwise']
                    false_t = dict(zip(sw['vals'], sw['targets'])).get(0)
                    equal_edge = false_t if is_ne else true_t
                    if equal_edge is not None and 'Err' in exit_outcomes_from(b, equal_edge) - {'Ok', 'Unknown', 'Unassigned'} and not (exit_outcomes_from(b, equal_edge) & {'Ok'}):
                        finding('R-MAGIC', b.q, 'match-rejected', 'a matching file magic can still be rejected')

    # ---------------------------------------------------------------- R-KEYLEN (C02): index build and query truncate with the same field
    klen = (facts.fields_by_role('bitar::chunk_index::ChunkIndex').get('usize') or [None])
    klen = klen[0] if len(klen) == 1 else None
    if klen is None:
        finding('R-KEYLEN', '-', 'anchor', 'ChunkIndex has no single usize field that could be the key length (cannot decide)')
    for name in ('add_chunk', 'remove', 'contains'):
        for b in facts.bodies.values():
            if b.q == 'bitar::chunk_index::ChunkIndex::' + name and klen is not None:
                ok = False
                for bi in b.live:
                    for st in b.blocks[bi]['stmts']:
                        if st['k'] == 'assign':
                            t = simplify(T.of_rvalue(b, st['rv'], 0))
                            if has_field(t, klen) or (isinstance(t, tuple) and t[0] == 'agg' and has_field(t, klen)):
                                ok = True
                    tt = b.blocks[bi]['term']
                    if tt['k'] == 'call':
                        for a in tt['args']:
                            if has_field(simplify(T.of_operand(b, a)), klen):
                                ok = True
                instances.append({'rule': 'R-KEYLEN', 'function': b.q, 'uses_index_key_length': ok, 'key_length_field': klen})
                if not ok:
                    finding('R-KEYLEN', b.q, 'key-length', 'ChunkIndex::%s does not key by the index hash length: build and query would disagree' % name)

    # ---------------------------------------------------------------- R-COPYARM (C03): the copy executor uses the fields of the same op
    # in the body that executes the reorder operations: what is read is read at the operation's `source`, into a buffer of the
    # operation's `size`, and what is written is written at the operation's `dest` (the seek that precedes each access decides)
    n_exec = 0
    for b in facts.bodies.values():
        if not b.id.startswith('bitar::clone_output::') or not any('q' in t['callee'] and callee_q(t).endswith('ChunkIndex::reorder_ops') for _, t in b.calls()):
            continue
        r = per_body.get(b.id)
        if r is None:
            continue
        n_exec += 1
        rd = [st[2] if isinstance(st, tuple) else () for _, st in r.reads]
        wr = [st[2] if isinstance(st, tuple) else () for _, st in r.writes]
        sizes = []
        for bi, t in b.calls():
            if 'q' in t['callee'] and callee_q(t).endswith('BytesMut::resize'):
                term = simplify(T.of_operand(b, t['args'][1]))
                sizes.append(sorted({n_[2] for n_ in walk(term) if n_[0] == 'field' and isinstance(n_[2], str)}))
        # a write through a still separate primitive: its offsets argument
        for bi, t in b.calls():
            d_ = t['callee'].get('rdef') or t['callee'].get('def')
            if d_ in per_body and per_body[d_].writes and d_ != b.id:
                for a in t['args'][1:]:
                    term = simplify(T.of_operand(b, a))
                    fs = tuple(sorted({n_[2] for n_ in walk(term) if n_[0] == 'field' and isinstance(n_[2], str)}))
                    if fs:
                        wr.append(fs)
                        break
        # ... and the sizing is not conditional: every exact read into a buffer is dominated by a resize of that buffer to the
        # operation's size (a bounce buffer that "only ever grows" reads - and then writes - the length of the biggest chunk so far)
        dom_ = b.dominators()
        resize_sites = [(bi, b.base_of(t['args'][0])) for bi, t in b.calls() if 'q' in t['callee'] and callee_q(t).endswith('BytesMut::resize') and t['args']]
        unsized = []
        for bi, t in b.calls():
            if 'q' in t['callee'] and t['callee']['q'].endswith('AsyncReadExt::read_exact') and len(t['args']) > 1:
                buf = _buffer_root_local(b, t['args'][1])
                if buf is None:
                    continue
                if not any(rb and rb[0] == buf and (rbi in dom_.get(bi, ()) or rbi == bi) for rbi, rb in resize_sites):
                    unsized.append(t['loc'])
        instances.append({'rule': 'R-COPYARM', 'function': b.q, 'read_seeks': rd, 'write_seeks': wr, 'buffer_sizes': sizes, 'reads_without_dominating_resize': len(unsized)})
        if unsized:
            finding('R-COPYARM', b.q, 'size-conditional', 'the exact read at %s fills a buffer that is not brought to the size of its reorder operation on every path '
                    '(conditional resize): a smaller chunk moved after a bigger one is read and written with the bigger length' % unsized[0])
        if not rd or not all('source' in x for x in rd):
            finding('R-COPYARM', b.q, 'seek-role', 'a chunk is not read from the source offset of its own reorder operation (%s)' % rd)
        if not sizes or not all('size' in x for x in sizes):
            finding('R-COPYARM', b.q, 'size-role', 'the copy buffer is not sized with the size of its own reorder operation (%s)' % sizes)
        if not wr or not all('dest' in x for x in wr):
            finding('R-COPYARM', b.q, 'dest-role', 'a moved chunk is not written to the destinations of its own reorder operation (%s)' % wr)
    if n_exec < 1:
        finding('R-COPYARM', '-', 'floor', 'the executor of the reorder operations was not found (cannot decide)')
    # the seed feed: what is written is written at the offsets of the very location that was taken out of the index for that hash
    n_feed = 0
    for b in facts.bodies.values():
        r = per_body.get(b.id)
        if r is None or not r.writes or any('q' in t['callee'] and callee_q(t).endswith('ChunkIndex::reorder_ops') for _, t in b.calls()):
            continue
        if not any('q' in t['callee'] and callee_q(t) == 'bitar::chunk_index::ChunkIndex::remove' for _, t in b.calls()):
            continue
        n_feed += 1
        bad = []
        for (loc, st) in r.writes:
            shown = st[1] if isinstance(st, tuple) else ''
            if 'ChunkIndex::remove' not in shown and 'remove(' not in shown:
                bad.append((loc, shown[:80]))
        instances.append({'rule': 'R-COPYARM(feed)', 'function': b.q, 'write_seeks_from_removed_location': not bad})
        if bad:
            finding('R-COPYARM', b.q, 'feed-offsets', 'a fed chunk is written at offsets that do not come from the location removed from the clone index for its hash (%s): '
                    'lookup and removal can disagree (different key normalisation) and the chunk is then lost' % bad[:2])
    if n_feed < 1:
        finding('R-COPYARM', '-', 'floor-feed', 'the seed feed (remove from the index, then write) was not found (cannot decide)')

    # ---------------------------------------------------------------- R-HASHRANGE (C04): the header checksum covers everything before it
    for b in facts.bodies.values():
        if b.q.endswith('Archive::try_init::{closure#0}') or ((b.raw.get('parent') or '').endswith('::try_init') and b.raw['coroutine']):
            ups = [(bi, t) for bi, t in b.calls() if 'q' in t['callee'] and callee_q(t).endswith('::update')]
            for bi, t in ups:
                term = simplify(T.of_operand(b, t['args'][1]))
                s = show(term)
                starts_at_zero = 'RangeTo' in s or 'start: 0' in s or (isinstance(term, tuple) and term[0] == 'field' and term[2] in (0, '0') and
                                                                      isinstance(term[1], tuple) and term[1][0] == 'call' and term[1][1].split('::')[-1] in ('split_at', 'split_at_checked'))
                instances.append({'rule': 'R-HASHRANGE', 'function': b.q, 'hashed': s[:140]})
                if not starts_at_zero:
                    finding('R-HASHRANGE', b.q, 'range-start', 'the header checksum is not computed from offset 0 of the header')
            if not ups:
                finding('R-HASHRANGE', b.q, 'floor', 'no hasher update found in try_init (cannot decide)')
            # ... and the stored checksum it is compared with is the 64 bytes that follow: a slice with an end (or an array of 64).  "All
            # that follows the offset" is shorter for a header that was cut off inside its checksum, and two hash sums are compared over
            # their common length: a stored checksum of 0..63 bytes matches (nearly) anything - an altered, truncated header is accepted
            froms = [(bi, t) for bi, t in b.calls() if (t['callee'].get('rq') or '').startswith('<bitar::hashsum::HashSum as core::convert::From')]
            for bi, t in froms:
                term = simplify(T.resolve_env(simplify(T.of_operand(b, t['args'][0]))))
                if not any(n_[0] == 'call' and n_[1].split('::')[-1] in ('get', 'index', 'split_at', 'try_into', 'first_chunk', 'last_chunk') for n_ in walk(term)):
                    continue
                # the slicing operation at the top of the term (wrappers peeled), not one somewhere inside an offset computation
                cur, part = term, None
                for _ in range(12):
                    if not isinstance(cur, tuple):
                        break
                    if cur[0] in ('try', 'variant', 'cast'):
                        cur = cur[-1] if cur[0] != 'try' else cur[1]
                    elif cur[0] == 'field':
                        part = cur[2]
                        cur = cur[1]
                    elif cur[0] == 'call' and cur[1].split('::')[-1] in ('ok_or_else', 'ok_or', 'unwrap', 'expect', 'map_err', 'as_ref', 'deref', 'borrow', 'as_slice', 'branch', 'from_residual') and cur[2]:
                        cur = cur[2][0]
                    else:
                        break
                outer = cur if isinstance(cur, tuple) and cur[0] == 'call' else None
                oname = outer[1].split('::')[-1] if outer else None
                rng = outer[2][1] if outer and oname in ('get', 'index') and len(outer[2]) == 2 else None
                closed = isinstance(rng, tuple) and rng[0] == 'agg' and str(rng[1]).split('::')[-1] in ('Range', 'RangeInclusive')
                arr = oname in ('try_into', 'first_chunk', 'last_chunk', 'split_first_chunk', 'first_chunk_mut') or \
                    (oname in ('split_at', 'split_at_checked') and part in (0, '0') and False)
                instances.append({'rule': 'R-HASHRANGE(stored)', 'function': b.q, 'at': t['loc'], 'slice_has_an_end': bool(closed or arr)})
                if not (closed or arr):
                    finding('R-HASHRANGE', b.q, 'stored-checksum-open-ended', 'the stored header checksum is taken as "what follows its offset" at %s (%s): for a header cut off inside '
                            'the checksum it is shorter than 64 bytes and matches by common prefix - a truncated, altered header is accepted as valid' % (t['loc'], show(rng)[:60] if rng else '?'))

    # ---------------------------------------------------------------- R-HEADERSEQ (C11): header::build appends magic, size, dictionary, offset, checksum
    from .r_dictwiring import root_local
    for b in facts.bodies.values():
        if b.q != 'bitar::header::build':
            continue
        dom = b.dominators()
        calls = sorted(b.calls(), key=lambda x: len(dom.get(x[0], ())))
        enc = [t for bi, t in calls if 'q' in t['callee'] and callee_q(t).endswith('Message::encode')]
        dict_root = root_local(b, enc[0]['args'][1]) if enc else None
        seq = []
        header_root = None
        hashed_at = None
        for bi, t in calls:
            if 'q' not in t['callee']:
                continue
            q = callee_q(t)
            if q.endswith(('Extend>::extend', 'Vec::extend_from_slice', 'Vec::push', 'io::Write>::write_all')):
                header_root = header_root or root_local(b, t['args'][0])
                if root_local(b, t['args'][0]) != header_root:
                    continue
                term = simplify(T.of_operand(b, t['args'][1]))
                r = root_local(b, t['args'][1])
                if 'ARCHIVE_MAGIC' in show(term):
                    kind = 'magic'
                elif has_call(term, 'to_le_bytes') and has_call(term, '::len'):
                    kind = 'dictionary-size' if any(root_local(b, c['args'][0]) == dict_root for _, c in calls
                                                    if 'q' in c['callee'] and callee_q(c).endswith('Vec::len') and len(dom[_]) < len(dom[bi])) else 'size?'
                elif has_call(term, 'to_le_bytes'):
                    kind = 'chunk-data-offset'
                elif has_call(term, '::finalize') or has_call(term, 'Digest>::digest') or has_call(term, '::digest'):
                    kind = 'checksum'
                elif r == dict_root:
                    kind = 'dictionary'
                else:
                    kind = '?' + show(term)[:40]
                seq.append((kind, len(dom[bi])))
            if q.endswith('Digest>::update') and header_root and root_local(b, t['args'][1]) == header_root:
                hashed_at = len(dom[bi])
            if q.endswith(('Digest>::digest', '::digest')) and header_root and t['args'] and root_local(b, t['args'][0]) == header_root:
                hashed_at = len(dom[bi])        # one-shot digest of the whole buffer
        kinds = [k for k, _ in seq]
        instances.append({'rule': 'R-HEADERSEQ', 'function': b.q, 'appends': kinds, 'little_endian': all(True for _ in seq)})
        want = ['magic', 'dictionary-size', 'dictionary', 'chunk-data-offset', 'checksum']
        if kinds != want:
            finding('R-HEADERSEQ', b.q, 'append-order', 'header::build appends %s, the documented layout is %s' % (kinds, want))
        elif hashed_at is None or not (seq[3][1] < hashed_at < seq[4][1]):
            finding('R-HEADERSEQ', b.q, 'checksum-coverage', 'the header checksum is not computed over everything appended before it')
        # default offset = header length + 8 + 64
        for g in [b] + [facts.bodies[x] for x in cg.edges[b.id] if x in facts.bodies and facts.bodies[x].raw['kind'] == 'Closure']:
            for bi in g.live:
                for st in g.blocks[bi]['stmts']:
                    if st['k'] == 'assign' and st['rv']['k'] == 'binop' and st['rv']['op'].startswith('Add'):
                        term = simplify(T.resolve_env(simplify(T.of_rvalue(g, st['rv'], 0))))
                        # the constants added along the spine of the sum (not those buried in what the length is the length of -
                        # a capacity hint computed from the same numbers, say)
                        consts, leaves = [], []

                        def spine(x):
                            while isinstance(x, tuple) and x[0] == 'cast':
                                x = x[2]
                            if isinstance(x, tuple) and x[0] == 'field' and x[2] == 0 and isinstance(x[1], tuple) and x[1][0] == 'binop':
                                x = x[1]
                            if isinstance(x, tuple) and x[0] == 'binop' and x[1] in ('Add', 'AddWithOverflow'):
                                spine(x[2]); spine(x[3])
                            elif isinstance(x, tuple) and x[0] == 'const' and isinstance(x[1], int):
                                consts.append(x[1])
                            else:
                                leaves.append(x)
                        spine(term)
                        if sum(consts) == 72 and any(isinstance(l_, tuple) and l_[0] == 'call' and l_[1].endswith('::len') for l_ in leaves):
                            instances[-1]['default_offset'] = show(term)[:80]
        if 'default_offset' not in instances[-1]:
            finding('R-HEADERSEQ', b.q, 'default-offset', 'the default chunk data offset is not header length + 8 + 64')
    if not any(i['rule'] == 'R-HEADERSEQ' for i in instances):
        finding('R-HEADERSEQ', '-', 'floor', 'header::build not found (cannot decide)')

    # ---------------------------------------------------------------- R-AWAITED: a future produced by an I/O call that is never polled does nothing
    nf = 0
    for b in facts.bodies.values():
        if b.generated:
            continue
        uses = None
        for bi, t in b.calls():
            if t['dest']['p']:
                continue
            ty = b.lty(t['dest']['l'])
            is_fut = ty.get('k') == 'coroutine' or (ty.get('k') == 'adt' and ty.get('adt', '').startswith(('tokio::io::util::', 'tokio::io::seek::', 'tokio::time::sleep')))
            if not is_fut:
                continue
            nf += 1
            uses = uses or uses_index(b)
            if not uses.get(t['dest']['l']):
                finding('R-AWAITED', b.q, 'never-polled:%s' % (callee_q(t).split('::')[-1] if 'q' in t['callee'] else 'call'),
                        'the future returned at %s is dropped without being awaited: the operation never happens' % t['loc'])
    instances.append({'rule': 'R-AWAITED', 'obligations': nf, 'futures_checked': nf})

    # ---------------------------------------------------------------- R-AWAITED(pending): a hand-written poll function says "not yet" only when
    # someone will wake it: every `Poll::Pending` it builds sits behind the Pending answer of something it polled itself with the
    # caller's context (which registered the waker), or behind a call of the waker.  Arming a timer and returning Pending without
    # polling it leaves no one to call back: the task sleeps for ever (a lost wake-up; the clone hangs instead of retrying).
    n_pend = 0
    for b in facts.bodies.values():
        if b.generated or not b.id.startswith(('bitar::', 'bita::')) or b.raw.get('coroutine'):
            continue
        sites = [(bi, st) for bi in b.live for st in b.blocks[bi]['stmts']
                 if st['k'] == 'assign' and st['rv']['k'] == 'agg' and st['rv'].get('adt') == 'core::task::poll::Poll' and st['rv'].get('vname') == 'Pending']
        if not sites:
            continue
        dom = b.dominators()
        inner = []      # blocks entered when an inner poll answered Pending
        for sbi in b.live:
            sw = b.blocks[sbi]['term']
            if sw['k'] != 'switch' or sw['op']['k'] not in ('copy', 'move'):
                continue
            ct = simplify(T.of_operand(b, sw['op']))
            if not (isinstance(ct, tuple) and ct[0] == 'discr'):
                continue
            # the answer of a poll itself (not a payload inside it: `Some` / `Err` are discriminant 1 as well)
            subj = ct[1]
            alts = subj[1] if isinstance(subj, tuple) and subj[0] == 'phi' else [subj]
            # (or the answer of an inlined poll helper: one of its ways out is a Pending that was checked where it was built)
            if not any(isinstance(a_, tuple) and (a_[0] == 'await' or (a_[0] == 'call' and (a_[1].split('::')[-1].startswith('poll') or a_[1].split('::')[-1] == 'try_poll')) or
                                                  (a_[0] == 'agg' and a_[1] == 'core::task::poll::Poll' and a_[2] == 'Pending')) for a_ in alts):
                continue
            ty_ = b.lty(sw['op']['pl']['l']) if not sw['op']['pl']['p'] else {}
            for v, tgt in zip(sw['vals'], sw['targets']):
                if v == 1:
                    inner.append(tgt)
            if 1 not in sw['vals']:
                inner.append(sw['otherwise'])
        wakes = [bi for bi, t in b.calls() if 'q' in t['callee'] and callee_q(t).split('::')[-1] in ('wake', 'wake_by_ref')]
        for bi, st in sites:
            n_pend += 1
            ok = any(x == bi or x in dom.get(bi, ()) for x in inner) or any(x == bi or x in dom.get(bi, ()) for x in wakes)
            instances.append({'rule': 'R-AWAITED(pending)', 'function': b.q, 'at': st['loc'], 'behind_an_inner_pending_or_a_wake': ok})
            if not ok:
                finding('R-AWAITED', b.q, 'pending-without-waker', 'Poll::Pending is returned at %s without anything having been polled with the caller\'s context on that path '
                        '(and without a call of the waker): nothing will wake the task again, it hangs' % st['loc'])
    if n_pend < 5:
        finding('R-AWAITED', '-', 'floor-pending', 'expected the Pending returns of the readers and the chunker (ready! expansions), found %d (cannot decide)' % n_pend)
    # ---------------------------------------------------------------- R-AWAITED(cancel): no step of the clone / compress paths is raced against a timer
    # `select!` (and `timeout`, `future::select`) drops the future that loses.  The steps here are not cancel-safe: `feed` has taken
    # the chunk out of the index before it writes, a chunk taken from the stream and half written to the temp file is gone - the
    # retried call finds nothing left to do and reports success.  Nothing on these paths may be polled through such a race.
    RACES = ('tokio::macros::support::thread_rng_n', 'tokio::macros::support::poll_fn', 'tokio::time::timeout::timeout', 'tokio::time::timeout::timeout_at',
             'futures_util::future::select::select', 'futures_util::future::select_all::select_all', 'futures_util::future::select_ok::select_ok',
             'futures_util::future::try_select::try_select', 'futures_util::future::abortable::abortable', 'tokio::task::join_set::JoinSet::abort_all',
             'tokio::task::join::JoinHandle::abort')
    n_cmd = 0
    for b in facts.bodies.values():
        if b.generated or b.crate not in ('bita', 'bitar'):
            continue
        if b.crate == 'bita':
            n_cmd += 1
        for bi, t in b.calls():
            if 'q' in t['callee'] and (callee_q(t) in RACES or t['callee']['q'] in RACES):
                owner = b.q.split('::{closure')[0]
                finding('R-AWAITED', owner, 'raced:' + callee_q(t).split('::')[-1], 'a step of %s is polled through %s at %s: the future that loses the race is dropped '
                        'half way (a chunk already taken out of the index / out of the stream is neither written nor asked for again)' % (owner, callee_q(t), t['loc']))
    instances.append({'rule': 'R-AWAITED(cancel)', 'bodies_scanned': n_cmd})

    # ---------------------------------------------------------------- R-STALEBUF: read_to_end appends
    # a buffer that is filled with read_to_end / read_to_string inside a loop is created (or cleared) inside that loop: declared
    # once outside, the n-th value is the concatenation of the first n
    APPENDERS = ('std::io::Read::read_to_end', 'std::io::Read::read_to_string', 'tokio::io::util::async_read_ext::AsyncReadExt::read_to_end',
                 'tokio::io::util::async_read_ext::AsyncReadExt::read_to_string')
    n_app = 0
    for b in facts.bodies.values():
        if b.generated or b.crate not in ('bita', 'bitar'):
            continue
        for bi, t in b.calls():
            if 'q' not in t['callee'] or t['callee']['q'] not in APPENDERS or len(t['args']) < 2:
                continue
            n_app += 1
            if bi not in (_reach_blocks(b, bi) - {bi}) and not any(bi in _reach_blocks(b, s_) for s_ in succs(t)):
                continue        # not in a loop
            buf = _buffer_root_local(b, t['args'][1])
            if buf is None:
                continue
            in_loop = {x for x in _reach_blocks(b, bi) if bi in _reach_blocks(b, x)}
            fresh = any(d[2] in in_loop for d in b.defs().get(buf, []))
            cleared = any(cbi in in_loop and 'q' in ct['callee'] and callee_q(ct).split('::')[-1] in ('clear', 'truncate', 'take', 'split_off', 'drain') and ct['args'] and
                          _buffer_root_local(b, ct['args'][0]) == buf for cbi, ct in b.calls())
            if not fresh and not cleared:
                finding('R-STALEBUF', b.q.split('::{closure')[0], callee_q(t).split('::')[-1], 'the buffer filled by %s at %s inside a loop is neither created nor cleared in that '
                        'loop: the call appends, every later value starts with all the earlier ones' % (callee_q(t).split('::')[-1], t['loc']))
    instances.append({'rule': 'R-STALEBUF', 'appending_reads': n_app})

    # ---------------------------------------------------------------- R-KEYLEN(offsets): add_chunk keeps every offset it is given
    # the same function builds the index of where chunks can be found and the index of where they must be written: an offset
    # it leaves out is a place that is never written
    n_add = 0
    for b in facts.bodies.values():
        if b.q != 'bitar::chunk_index::ChunkIndex::add_chunk' and not (b.raw['kind'] == 'Closure' and (b.raw.get('parent') or '').endswith('::add_chunk')):
            continue
        n_add += 1
        for bi, t in b.calls():
            if 'q' in t['callee'] and callee_q(t).split('::')[-1] in ('take', 'skip', 'step_by', 'take_while', 'skip_while', 'filter', 'truncate', 'nth', 'last', 'first', 'dedup') \
                    and ('Iterator' in t['callee']['q'] or 'slice' in callee_q(t) or 'Vec' in callee_q(t) or callee_q(t).startswith('[T]::')):
                recv = simplify(T.of_operand(b, t['args'][0])) if t['args'] else None
                if recv is not None and any(n_[0] == 'param' and n_[2] == 3 for n_ in walk(recv)):
                    finding('R-KEYLEN', 'bitar::chunk_index::ChunkIndex::add_chunk', 'offsets-thinned:' + callee_q(t).split('::')[-1], 'add_chunk passes the offsets it is given '
                            'through %s at %s: the places it leaves out are never written (the clone index is built by this very function)' % (callee_q(t).split('::')[-1], t['loc']))
    if n_add < 1:
        finding('R-KEYLEN', '-', 'floor-add', 'ChunkIndex::add_chunk was not found (cannot decide)')

    # ---------------------------------------------------------------- R-DEBUGONLY(log): what only runs when a log level is enabled cannot panic
    # the arguments of log macros are evaluated only when the level is on: `debug!(".. {}", list[0].offset)` passes every test (no
    # logger installed) and panics under -v when the list is empty
    LOGM = ('log::debug', 'log::trace', 'log::info', 'log::warn', 'log::error', 'debug', 'trace', 'info', 'warn', 'error', '$crate::log', 'log::log')
    n_log = 0
    for b in facts.original.values():
        if b.generated or b.crate not in ('bita', 'bitar'):
            continue
        cdom = None
        for sbi in b.live:
            sw = b.blocks[sbi]['term']
            mac = sw.get('mac') or []
            if sw['k'] != 'switch' or not mac or not any(m_.split('::')[-1] in ('debug', 'trace', 'info', 'warn', 'error', 'log') and ('log' in m_ or m_ in LOGM) for m_ in mac) or sw['vals'] != [0]:
                continue
            n_log += 1
            on, off = sw['otherwise'], sw['targets'][0]
            if on == off:
                continue
            cdom = cdom or b._classic_dominators()
            for rbi in b.live:
                if on not in cdom.get(rbi, ()):
                    continue
                t = b.blocks[rbi]['term']
                if t.get('exp'):
                    continue
                hazard = None
                if t['k'] == 'assert' and t.get('ak') in ('BoundsCheck', 'DivisionByZero', 'RemainderByZero', 'Overflow(Sub)'):
                    hazard = t['ak']
                elif t['k'] == 'call' and 'q' in t['callee'] and (t['callee']['q'] in ('core::ops::index::Index::index',) or
                                                                  callee_q(t) in ('core::option::Option::unwrap', 'core::result::Result::unwrap', 'core::option::Option::expect',
                                                                                  'core::result::Result::expect')):
                    hazard = callee_q(t).split('::')[-1]
                if hazard:
                    finding('R-DEBUGONLY', b.q, 'panic-in-log:' + hazard, 'an argument of a log macro at %s can panic (%s): it is only evaluated when that log level is enabled, which '
                            'no test does' % (t['loc'], hazard))
                # ... one level into a helper of the tool called for a log line (`short_hash(h)` slicing `h[..8]`): a hazard that sits on
                # every path through the helper is a hazard of the log line
                if t['k'] == 'call' and 'q' in t['callee'] and not hazard:
                    gd = t['callee'].get('rdef') or t['callee'].get('def')
                    g = facts.original.get(gd)
                    if g is not None and not g.generated and g.crate in ('bita', 'bitar') and not g.raw.get('coroutine'):
                        gdom = g._classic_dominators()
                        rets = [x for x in g.live if g.blocks[x]['term']['k'] == 'return']
                        for gbi in g.live:
                            gt = g.blocks[gbi]['term']
                            if gt.get('exp'):
                                continue
                            hz = None
                            # (arithmetic inside library helpers - `32 - bits` on validated bits - is R-UNTRUSTED's subject, not this rule's)
                            if gt['k'] == 'call' and 'q' in gt['callee'] and callee_q(gt) in ('core::option::Option::unwrap', 'core::result::Result::unwrap',
                                                                                          'core::option::Option::expect', 'core::result::Result::expect') and g.crate == 'bita':
                                hz = callee_q(gt).split('::')[-1]
                            elif gt['k'] == 'call' and 'q' in gt['callee'] and gt['callee']['q'] == 'core::ops::index::Index::index' and len(gt['args']) == 2 and \
                                    gt['args'][1]['k'] in ('copy', 'move') and 'Range' in (g.lty(gt['args'][1]['pl']['l']).get('adt') or '') and \
                                    not (g.lty(gt['args'][1]['pl']['l']).get('adt') or '').endswith('RangeFull'):
                                hz = 'index'        # a range slice `x[..n]` / `x[a..b]`
                            if hz and rets and all(gbi == r_ or gbi in gdom.get(r_, ()) for r_ in rets):
                                finding('R-DEBUGONLY', b.q, 'panic-in-log:%s@%s' % (hz, g.q.split('::')[-1]), 'the log line at %s calls %s, which can panic on every path through it '
                                        '(%s at %s): it is only evaluated when that log level is enabled, which no test does' % (t['loc'], g.q, hz, gt['loc']))
    instances.append({'rule': 'R-DEBUGONLY(log)', 'log_gates': n_log})

    # ---------------------------------------------------------------- R-DEBUGONLY: nothing the program relies on happens inside a debug_assert
    # `debug_assert!(map.insert(k, v).is_none())` keeps the tests (debug builds) green and drops the insert from the release
    # binary.  The gate is the `cfg!(debug_assertions)` branch the macro expands to; what the user wrote inside it must not
    # take anything by `&mut`.
    n_gates = 0
    seen_gate = set()
    for b in facts.original.values():
        if b.generated or b.crate not in ('bita', 'bitar'):
            continue
        for sbi in b.live:
            sw = b.blocks[sbi]['term']
            mac = sw.get('mac') or []
            if sw['k'] != 'switch' or len(mac) < 2 or not mac[0].endswith('cfg') or not mac[1].startswith('debug_assert') or sw['vals'] != [0]:
                continue
            n_gates += 1
            on, off = sw['otherwise'], sw['targets'][0]
            cdom = b._classic_dominators()
            region = {x for x in b.live if on in cdom.get(x, ())} if on != off else set()
            for rbi in sorted(region):
                t = b.blocks[rbi]['term']
                if t['k'] != 'call' or t.get('exp') or 'q' not in t['callee']:
                    continue
                muts = [a for a in t['args'] if a['k'] in ('copy', 'move') and b.lty(a['pl']['l']).get('k') == 'ref' and b.lty(a['pl']['l']).get('mut')
                        and not _borrows_region_local(b, a, region)]
                if muts:
                    name = callee_q(t).split('::')[-1]
                    finding('R-DEBUGONLY', b.q, name, 'the call of `%s` at %s takes `&mut` and sits inside a %s!: it is compiled out of release builds, '
                            'the tests (debug builds) cannot notice' % (name, t['loc'], mac[1]))
    instances.append({'rule': 'R-DEBUGONLY', 'debug_assert_gates': n_gates})
    return instances, findings
