"""R-READER-WIRING: what the reader reports back is what the dictionary says (table written from chunk_dictionary.proto and
header.rs, not from the code): every field of the opened `Archive` comes from the same-named decoded field unaltered, the
chunker configuration handed to seeds/in-place scans maps the recorded parameters field by field, and enum values select the
variant the proto assigns to them.  A reader that "corrects" a recorded value (clamps, swaps, defaults) still opens every
archive - the tests stay green - but scans seeds with other parameters than the archive was cut with, so nothing is reused
(C06), or reports other settings than were requested (C11), or mis-decodes archives of other writers (C17).
"""
from ..facts import callee_q, rv_places, rv_operands
from ..terms import Terms, simplify, has_call, has_field, show, walk

ARCHIVE = 'bitar::archive::Archive'
FILTERCFG = 'bitar::chunker::config::FilterConfig'
CONFIG = 'bitar::chunker::config::Config'
COMPRESSION = 'bitar::compression::Compression'
# Archive field -> decoded dictionary field it must carry unaltered
PLAIN = {
    'source_total_size': 'source_total_size',
    'source_checksum': 'source_checksum',
    'created_by_app_version': 'application_version',
    'metadata': 'metadata',
    'chunk_hash_length': 'chunk_hash_length',
}
MENTIONS = {'chunk_compression': 'chunk_compression', 'chunker_config': 'chunker_params'}
FILTER_FROM = {'min_chunk_size': 'min_chunk_size', 'max_chunk_size': 'max_chunk_size', 'window_size': 'rolling_hash_window_size',
               'filter_bits': 'chunk_filter_bits'}
# value-preserving wrappers a field may pass through
TRANSPARENT = {'clone', 'into', 'from', 'to_owned', 'to_string', 'to_vec', 'try_from', 'try_into', 'ok_or_else', 'ok_or', 'ok', 'unwrap',
               'expect', 'unwrap_or_default', 'branch', 'as_ref', 'deref', 'borrow', 'from_bits', 'map_err', 'take', 'as_str', 'as_slice'}
ALGO_VALUE = {0: 'BuzHash', 1: 'RollSum', 2: 'FixedSize'}           # ChunkerParameters.ChunkingAlgorithm
COMP_VALUE = {1: 'Lzma', 2: 'Zstd', 3: 'Brotli'}                      # ChunkCompression.CompressionType (0 = NONE)


def cut_decoded(t):
    """replace the decoding of the dictionary (and everything below it) by a leaf: only what happens to a decoded field counts"""
    if isinstance(t, tuple):
        if t[0] == 'call' and t[1].endswith('Message::decode'):
            return ('decoded',)
        return tuple(cut_decoded(x) for x in t)
    if isinstance(t, list):
        return [cut_decoded(x) for x in t]
    if isinstance(t, dict):
        return {k: cut_decoded(v) for k, v in t.items()}
    return t


def altered(term):
    """why a term is not `the decoded field as it is` (None if it is)"""
    if not isinstance(term, tuple):
        return None
    k = term[0]
    if k == 'binop':
        return 'arithmetic (%s)' % term[1]
    if k == 'const' and isinstance(term[1], int):
        return 'a constant'
    if k == 'var':
        return 'a value assigned on several paths'
    if k == 'call':
        name = term[1].split('::')[-1]
        if name == 'min':
            consts = [a[1] for a in term[2] if isinstance(a, tuple) and a[0] == 'const' and isinstance(a[1], int)]
            if consts and min(consts) >= 64:
                # clamping a length to what a hash sum can hold loses nothing
                for a in term[2]:
                    if not (isinstance(a, tuple) and a[0] == 'const'):
                        w = altered(a)
                        if w:
                            return w
                return None
            return 'min(..)'
        if name not in TRANSPARENT and not name.startswith('{closure'):
            return name + '(..)'
    for x in term[1:]:
        for y in (x if isinstance(x, list) else x.values() if isinstance(x, dict) else [x]):
            w = altered(y)
            if w:
                return w
    return None


def run(facts, cg):
    from .r_steps import exit_outcomes_from
    T = Terms(facts)
    instances, findings = [], []

    def finding(where, what, detail):
        key = 'R-READER-WIRING|%s|%s' % (where, what)
        if key not in {x['key'] for x in findings}:
            findings.append({'rule': 'R-READER-WIRING', 'key': key, 'function': where, 'what': detail})

    n_arch = n_filter = n_cfg = n_comp = 0
    for b in facts.bodies.values():
        if b.generated or not b.id.startswith('bitar::archive::'):
            continue
        dom = None
        for bi in b.live:
            for st in b.blocks[bi]['stmts']:
                if st['k'] != 'assign' or st['rv']['k'] != 'agg' or st.get('exp'):
                    continue
                rv = st['rv']
                adt = rv.get('adt')
                if adt not in (ARCHIVE, FILTERCFG, CONFIG, COMPRESSION):
                    continue
                d = {n: cut_decoded(simplify(T.resolve_env(simplify(T.of_operand(b, o))))) for n, o in zip(rv['fields'], rv['ops'])}
                if adt == ARCHIVE:
                    n_arch += 1
                    rows = {}
                    for fld, src in PLAIN.items():
                        if fld not in d:
                            continue
                        t = d[fld]
                        why = None if has_field(t, src) else 'does not read dictionary.%s' % src
                        why = why or (altered(t) and 'passes through ' + altered(t))
                        rows[fld] = show(t)[:70]
                        if why:
                            finding(b.q, 'archive:' + fld, 'Archive.%s is not the decoded %s as recorded: %s (%s)' % (fld, src, why, show(t)[:90]))
                    for fld, src in MENTIONS.items():
                        # a required sub-message that is absent makes the archive invalid; it is not "all defaults"
                        if fld in d:
                            for nd in walk(d[fld]):
                                if nd[0] == 'call' and nd[1].split('::')[-1] in ('unwrap_or_default', 'unwrap_or', 'unwrap_or_else') and nd[2] and \
                                        isinstance(nd[2][0], tuple) and nd[2][0][0] == 'field' and nd[2][0][2] == src:
                                    finding(b.q, 'absent-defaulted:' + fld, 'a dictionary without %s is opened with default values instead of being refused as an invalid '
                                            'archive: the clone goes ahead (creates / overwrites the output) and fails later, or mis-reads the chunks' % src)
                        if fld in d and not has_field(d[fld], src):
                            finding(b.q, 'archive:' + fld, 'Archive.%s is not derived from the decoded %s (%s)' % (fld, src, show(d[fld])[:90]))
                    instances.append({'rule': 'R-READER-WIRING(archive)', 'function': b.q, 'at': st['loc'], 'obligations': len(PLAIN) + len(MENTIONS), 'fields': rows})
                elif adt == FILTERCFG:
                    n_filter += 1
                    for fld, src in FILTER_FROM.items():
                        t = d.get(fld)
                        if t is None:
                            continue
                        others = {x for x in FILTER_FROM.values() if x != src}
                        got = {n[2] for n in walk(t) if n[0] == 'field' and isinstance(n[2], str)} & set(FILTER_FROM.values())
                        why = None
                        if got != {src}:
                            why = 'reads %s' % sorted(got)
                        elif altered(t):
                            why = 'passes through ' + altered(t)
                        if why:
                            finding(b.q, 'filter-config:' + fld, 'the chunker configuration of an opened archive takes %s from the recorded %s: %s (%s)' % (fld, src, why, show(t)[:80]))
                    instances.append({'rule': 'R-READER-WIRING(filter-config)', 'function': b.q, 'at': st['loc'], 'obligations': 4,
                                      'fields': {k: show(v)[:60] for k, v in d.items()}})
                elif adt in (CONFIG, COMPRESSION):
                    # the variant built must be the one the decoded enum value selects: the aggregate sits behind the switch
                    # edge for that value and for no other
                    vname = rv['vname'] if adt == CONFIG else None
                    if adt == COMPRESSION:
                        alg = d.get('algorithm')
                        vname = alg[2] if isinstance(alg, tuple) and alg[0] == 'agg' else None
                        lvl = d.get('level')
                        n_comp += 1
                        if lvl is not None and (not has_field(lvl, 'compression_level') or altered(lvl)):
                            finding(b.q, 'compression-level', 'the compression level of an opened archive is not the recorded compression_level (%s)' % show(lvl)[:80])
                    else:
                        n_cfg += 1
                        if vname == 'FixedSize':
                            t = d.get('0')
                            got = {n[2] for n in walk(t) if n[0] == 'field' and isinstance(n[2], str)} & set(FILTER_FROM.values()) if t else set()
                            if got != {'max_chunk_size'} or altered(t):
                                finding(b.q, 'fixed-size', 'the fixed chunk size of an opened archive is not the recorded max_chunk_size (%s)' % (show(t)[:80] if t else '?'))
                    table = ALGO_VALUE if adt == CONFIG else COMP_VALUE
                    want = [v for v, n in table.items() if n == vname]
                    if not want:
                        continue
                    dom = dom or b.dominators()
                    sel = selecting_values(b, T, bi, dom, 'chunking_algorithm' if adt == CONFIG else 'compression')
                    instances.append({'rule': 'R-READER-WIRING(enum)', 'function': b.q, 'at': st['loc'], 'variant': vname, 'selected_by_values': sorted(sel) if sel is not None else None})
                    if sel is None:
                        finding(b.q, 'enum-dispatch:' + str(vname), 'could not relate the construction of %s to a value of the recorded enum (cannot decide)' % vname)
                    elif sel != set(want):
                        finding(b.q, 'enum-value:' + str(vname), '%s is built for recorded enum value(s) %s; the format assigns it %s' % (vname, sorted(sel), want))
    # ---- R-READER-WIRING(source-size): the recorded source size is what the output is sized to and what a block device is checked
    # against *before any chunk has been seen*; it has to be the sum of the chunks the source is rebuilt from (F14).  In the body
    # that builds the Archive: an (in)equality between the decoded source_total_size and an accumulation over the descriptors'
    # source_size whose unequal side reaches error exits only, in front of the construction.
    n_sum = 0
    for b in facts.bodies.values():
        if b.generated or not b.id.startswith('bitar::archive::'):
            continue
        aggs = [bi for bi in b.live for st in b.blocks[bi]['stmts'] if st['k'] == 'assign' and st['rv']['k'] == 'agg' and st['rv'].get('adt') == ARCHIVE and not st.get('exp')]
        if not aggs:
            continue
        dom = b.dominators()
        good = []
        for bi in b.live:
            t = b.blocks[bi]['term']
            cands = []
            if t['k'] == 'call' and 'q' in t['callee'] and callee_q(t).split('::')[-1] in ('eq', 'ne') and len(t['args']) == 2:
                cands.append((t['args'][0], t['args'][1], callee_q(t).split('::')[-1] == 'ne', t['dest'], t['loc'], succ_of(t)))
            for st in b.blocks[bi]['stmts']:
                if st['k'] == 'assign' and not st['pl']['p'] and st['rv']['k'] == 'binop' and st['rv']['op'] in ('Eq', 'Ne'):
                    cands.append((st['rv']['a'], st['rv']['b'], st['rv']['op'] == 'Ne', st['pl'], st['loc'], bi))
            for (oa, ob, is_ne, dest, loc, swb) in cands:
                ta = cut_decoded(simplify(T.resolve_env(simplify(T.of_operand(b, oa)))))
                tb = cut_decoded(simplify(T.resolve_env(simplify(T.of_operand(b, ob)))))
                for x, y in ((ta, tb), (tb, ta)):
                    if has_field(x, 'source_total_size') and not has_field(y, 'source_total_size') and _sums_source_sizes(facts, y):
                        sw = b.blocks[swb]['term'] if swb is not None else None
                        if not sw or sw['k'] != 'switch' or sw['op']['k'] not in ('copy', 'move') or sw['op']['pl']['l'] != dest['l']:
                            continue
                        t_edge, f_edge = sw['otherwise'], dict(zip(sw['vals'], sw['targets'])).get(0)
                        uneq = t_edge if is_ne else f_edge
                        if uneq is not None and exit_outcomes_from(b, uneq) <= {'Err'}:
                            good.append((swb, loc))
        ok = [loc for (cb, loc) in good if all(cb in dom.get(a, ()) or cb == a for a in aggs)]
        n_sum += 1
        instances.append({'rule': 'R-READER-WIRING(source-size)', 'function': b.q, 'compared_with_sum_of_chunks_at': ok})
        if not ok:
            finding(b.q, 'source-size-unchecked', 'the recorded source size is taken over without having been compared with the sum of the chunks the source is rebuilt '
                    'from: it is what a block device is checked against and what the output is resized to before any chunk has been seen - a too small value lets the clone '
                    'overwrite a device that cannot hold the source, chunks are written beyond the recorded end')
    if n_sum < 1:
        finding('-', 'floor-source-size', 'the construction of the Archive was not found (cannot decide)')
    # a tuple variant handed on as a function value (`.map(Config::BuzHash)`) constructs it just the same
    for b in facts.bodies.values():
        if b.generated or not b.id.startswith('bitar::archive::'):
            continue
        ctor_sites = [(bi, t['loc'], a) for bi, t in b.calls() for a in t['args']]
        ctor_sites += [(bi, st['loc'], st['rv']['op']) for bi in b.live for st in b.blocks[bi]['stmts']
                       if st['k'] == 'assign' and st['rv']['k'] in ('use', 'cast') and st['rv']['op'].get('k') == 'const']
        for bi, loc_, a in ctor_sites:
            t = {'loc': loc_}
            for a in [a]:
                if a.get('k') == 'const' and a.get('fn') and '::{constructor' in a['fn'] and a['fn'].startswith(CONFIG + '::'):
                    vname = a['fn'][len(CONFIG) + 2:].split('::')[0]
                    want = [v for v, n in ALGO_VALUE.items() if n == vname]
                    if not want:
                        continue
                    n_cfg += 1
                    sel = selecting_values(b, T, bi, b.dominators(), 'chunking_algorithm')
                    instances.append({'rule': 'R-READER-WIRING(enum)', 'function': b.q, 'at': t['loc'], 'variant': vname, 'selected_by_values': sorted(sel) if sel is not None else None})
                    if sel is None:
                        finding(b.q, 'enum-dispatch:' + str(vname), 'could not relate the construction of %s to a value of the recorded enum (cannot decide)' % vname)
                    elif sel != set(want):
                        finding(b.q, 'enum-value:' + str(vname), '%s is built for recorded enum value(s) %s; the format assigns it %s' % (vname, sorted(sel), want))
    # ---- R-ACCEPT: what the reader refuses.  The writer accepts min = avg = max and a window as large as the largest chunk
    # (cli.rs refuses only `min > avg`, `max < avg`); a reader whose validation refuses the boundary (`>=` for `>`, a half-open
    # range for a closed one) rejects archives this very tool writes.  For every comparison of two recorded chunker parameters:
    # find the edge that leads to an error on every path and read off whether the two being equal takes it.
    PARAMS = ('min_chunk_size', 'max_chunk_size', 'rolling_hash_window_size')
    NEG = {'Lt': 'Ge', 'Le': 'Gt', 'Gt': 'Le', 'Ge': 'Lt', 'Eq': 'Ne', 'Ne': 'Eq'}
    n_acc = 0

    def params_of(t):
        return {n[2] for n in walk(t) if n[0] == 'field' and n[2] in PARAMS}
    for b in facts.bodies.values():
        if b.generated or not b.id.startswith('bitar::archive::'):
            continue
        for bi in b.live:
            sw = b.blocks[bi]['term']
            for st in b.blocks[bi]['stmts']:
                if st['k'] != 'assign' or st['pl']['p'] or st['rv']['k'] != 'binop' or st['rv']['op'] not in NEG:
                    continue
                pa = params_of(simplify(T.resolve_env(simplify(T.of_operand(b, st['rv']['a'])))))
                pb = params_of(simplify(T.resolve_env(simplify(T.of_operand(b, st['rv']['b'])))))
                if len(pa) != 1 or len(pb) != 1 or pa == pb:
                    continue
                from .r_accept import deciding_switch
                dsw = deciding_switch(b, bi, st['pl']['l'])
                if dsw is None:
                    continue
                sw2, flipped = dsw
                n_acc += 1
                t_edge, f_edge = sw2['otherwise'], dict(zip(sw2['vals'], sw2['targets'])).get(0)
                if flipped:
                    t_edge, f_edge = f_edge, t_edge
                rej = None
                if t_edge is not None and exit_outcomes_from(b, t_edge) <= {'Err'}:
                    rej = st['rv']['op']
                elif f_edge is not None and exit_outcomes_from(b, f_edge) <= {'Err'}:
                    rej = NEG[st['rv']['op']]
                instances.append({'rule': 'R-ACCEPT', 'function': b.q, 'at': st['loc'], 'compares': sorted(pa | pb), 'refused_when': rej})
                if rej in ('Ge', 'Le', 'Eq'):
                    finding(b.q, 'boundary-refused:' + '/'.join(sorted(pa | pb)), 'the validation at %s refuses an archive whose %s are equal; the writer accepts and records '
                            'such a configuration (min = avg = max), so archives made by this tool are rejected' % (st['loc'], ' and '.join(sorted(pa | pb))))
            # the same test as a range: `(lo..hi).contains(&x)` leaves out x == hi, `(lo..=hi)` does not
            if sw['k'] == 'call' and 'q' in sw['callee'] and callee_q(sw).split('::')[-1] == 'contains' and 'ops::range::Range' in callee_q(sw) \
                    and len(sw['args']) == 2:
                px = params_of(simplify(T.resolve_env(simplify(T.of_operand(b, sw['args'][1])))))
                rng = simplify(T.resolve_env(simplify(T.of_operand(b, sw['args'][0]))))
                pr = params_of(rng)
                if len(px) == 1 and pr and not (px & pr):
                    n_acc += 1
                    half_open = callee_q(sw).startswith('core::ops::range::Range::') or '::Range<' in callee_q(sw) or \
                        any(n[0] == 'agg' and n[1] == 'core::ops::range::Range' for n in walk(rng))
                    instances.append({'rule': 'R-ACCEPT', 'function': b.q, 'at': sw['loc'], 'compares': sorted(px | pr), 'half_open_range': half_open})
                    if half_open:
                        finding(b.q, 'boundary-refused:' + '/'.join(sorted(px | pr)), 'the validation at %s tests %s with a half-open range: the value equal to the upper end is '
                                'refused, but the writer accepts and records it (min = avg = max)' % (sw['loc'], ' and '.join(sorted(px | pr))))
    if n_acc < 2:
        finding('-', 'floor-accept', 'expected the comparisons of min / window with the max chunk size in the reader\'s validation, found %d (cannot decide)' % n_acc)
    if n_arch < 1 or n_filter < 1 or n_cfg < 3 or n_comp < 1:
        finding('-', 'floor', 'expected the Archive aggregate, the FilterConfig and three Config variants and a Compression built from the dictionary, '
                'found %d/%d/%d/%d (cannot decide)' % (n_arch, n_filter, n_cfg, n_comp))
    return instances, findings


def succ_of(t):
    return t.get('t')


def _sums_source_sizes(facts, term):
    """an accumulation (fold / try_fold / sum / a checked_add chain) that reads the descriptors' source_size"""
    acc = False
    reads = has_field(term, 'source_size')
    for n in walk(term):
        if n[0] == 'call' and n[1].split('::')[-1] in ('fold', 'try_fold', 'sum', 'checked_add', 'try_for_each', 'scan'):
            acc = True
        if n[0] == 'acc':
            acc = True
        if n[0] == 'closure' and n[1] in facts.bodies:
            cb = facts.bodies[n[1]]
            for bi in cb.live:
                for st in cb.blocks[bi]['stmts']:
                    if st['k'] == 'assign':
                        pls = list(rv_places(st['rv'])) + [o['pl'] for o in rv_operands(st['rv']) if o.get('k') in ('copy', 'move')]
                        for pl in pls:
                            if any(p.get('k') == 'field' and p.get('n') == 'source_size' for p in pl['p']):
                                reads = True
    return acc and reads


def selecting_values(b, T, bi, dom, fieldname):
    """values of the decoded enum (switch on the result of `X::try_from(recorded.<fieldname>)`) whose switch edge dominates
    block bi; None if no such switch is found"""
    found = None
    for sbi in b.live:
        sw = b.blocks[sbi]['term']
        if sw['k'] != 'switch' or sw['op']['k'] not in ('copy', 'move'):
            continue
        term = simplify(T.resolve_env(simplify(T.of_operand(b, sw['op']))))
        if not (has_field(term, fieldname) and any(n[0] == 'discr' for n in walk(term))):
            continue
        # the switch over the enum payload (discriminant of (try_from(..) as Ok).0), not the one over Ok/Err
        if not any(n[0] == 'discr' and isinstance(n[1], tuple) and n[1][0] == 'field' for n in walk(term)) and \
                not any(n[0] == 'variant' and n[1] == 'Ok' for n in walk(term)):
            continue
        vals = set()
        for v, tgt in zip(sw['vals'], sw['targets']):
            if tgt in dom.get(bi, ()) or tgt == bi:
                vals.add(v)
        if vals:
            found = (found or set()) | vals
        elif found is None:
            found = found
    return found
