"""R-CURSOR: every chunk scan of a seekable file starts at offset 0."""
from ..typestate import TypeState, Spec
from .r_flush import FILE, AW, AR, AS, DIRTY

SCAN = 'bitar::chunker::config::Config::new_chunker'
READS = {AR + m for m in ('read', 'read_exact', 'read_buf', 'read_to_end', 'read_to_string')}


def seek_class(b, t):
    a = t['args'][1]
    if a['k'] not in ('copy', 'move'):
        return 'Other'
    for d in b.defs().get(a['pl']['l'], []):
        if d[0] == 'assign' and d[1]['rv']['k'] == 'agg' and d[1]['rv'].get('adt') == 'std::io::SeekFrom':
            rv = d[1]['rv']
            o = rv['ops'][0]
            if rv['vname'] == 'Start' and o['k'] == 'const' and o.get('int') == 0:
                return 'Start0'
    return 'Other'


class CursorSpec(Spec):
    adt = FILE
    states = ('AtStart', 'Elsewhere')
    init_state = 'AtStart'

    def event(self, b, t, q, argi):
        if q == AS + 'seek' and argi == 0:
            return 'home' if seek_class(b, t) == 'Start0' else 'away'
        if q == AS + 'rewind' and argi == 0:
            return 'home'
        if (q in READS or q in DIRTY) and argi == 0:
            return 'away'
        if q in ('tokio::fs::file::File::try_clone', 'std::fs::File::try_clone', 'tokio::fs::file::File::into_std', 'tokio::fs::file::File::from_std') and argi == 0:
            return 'away'       # a duplicated handle shares the file offset: whatever is done through it moves this cursor too
        if q == SCAN and argi == 1:
            return 'scan'
        return None

    def delta(self, s, ev):
        if ev == 'home':
            return 'AtStart'
        if ev in ('away', 'scan'):
            return 'Elsewhere'
        return s

    def checkpoint(self, ev):
        return ev == 'scan'


class ResizeOrderSpec(Spec):
    """the prior content of a file is scanned for reusable chunks only while the file still has its prior length:
    set_len(source size) shortens a longer prior output, and what is cut off cannot be found by a later scan"""
    adt = FILE
    states = ('Intact', 'Resized')
    init_state = 'Intact'

    def event(self, b, t, q, argi):
        if q == 'tokio::fs::file::File::set_len' and argi == 0:
            return 'resize'
        if q == SCAN and argi == 1:
            return 'scan'
        return None

    def delta(self, s, ev):
        return 'Resized' if ev == 'resize' else s

    def checkpoint(self, ev):
        return ev == 'scan'


class LimitSpec(Spec):
    """a file that is scanned for reusable chunks is scanned whole: a reader limited with take(n) hides what lies beyond n
    (a block device that holds the wanted chunks behind the new image's length, a prior output that was longer)"""
    adt = FILE
    states = ('Whole', 'Limited')
    init_state = 'Whole'
    rebind = ('limit',)

    def event(self, b, t, q, argi):
        if q == AR + 'take' and argi == 0:
            return 'limit'
        if q == SCAN and argi == 1:
            return 'scan'
        return None

    def delta(self, s, ev):
        return 'Limited' if ev == 'limit' else s

    def checkpoint(self, ev):
        return ev == 'scan'


def run(facts):
    ts3 = TypeState(facts, LimitSpec())
    lim_inst, lim_find = [], []
    from .r_flush import _user_name as _un
    n_scans = 0
    for b in facts.bodies.values():
        for root in ts3.roots(b):
            r, ex = ts3.analyse_owner(b, root)
            scans = [(st, loc, oc) for (ev, st, loc, oc) in r.records if ev == 'scan']
            n_scans += len(scans)
            for st, loc, oc in scans:
                if st == 'Limited':
                    name = _un(b, root)
                    lim_find.append({'rule': 'R-CURSOR', 'key': 'R-CURSOR|%s|scan-limited:%s' % (b.q, name), 'function': b.q,
                                     'what': '`%s` is scanned for reusable chunks at %s through a reader limited with take(..): chunks it holds beyond that '
                                             'limit are not found and are fetched again' % (name, loc)})
    ts = TypeState(facts, CursorSpec())
    ts2 = TypeState(facts, ResizeOrderSpec())
    instances, findings = [], []
    from .r_flush import _user_name
    for b in facts.bodies.values():
        for root in ts2.roots(b):
            r, ex = ts2.analyse_owner(b, root)
            scans = [(st, loc, oc) for (ev, st, loc, oc) in r.records if ev == 'scan']
            if not scans:
                continue
            name = _user_name(b, root)
            instances.append({'rule': 'R-RESIZE(order)', 'function': b.q, 'resource': name, 'scans': sorted({(st, loc) for st, loc, _ in scans})})
            for st, loc, oc in scans:
                if st == 'Resized':
                    findings.append({'rule': 'R-RESIZE', 'key': 'R-RESIZE|%s|resized-before-scan:%s' % (b.q, name), 'function': b.q,
                                     'what': '`%s` is resized before it is scanned for reusable chunks at %s: whatever a longer prior output '
                                             'holds beyond the new length is cut off unseen and fetched again' % (name, loc)})
    for b in facts.bodies.values():
        for root in ts.roots(b):
            r, ex = ts.analyse_owner(b, root)
            scans = [(st, loc, oc) for (ev, st, loc, oc) in r.records if ev == 'scan']
            if not scans:
                continue
            name = _user_name(b, root)
            inst = {'rule': 'R-CURSOR', 'function': b.q, 'resource': name, 'scans': sorted({(st, loc) for st, loc, _ in scans})}
            instances.append(inst)
            for st, loc, oc in scans:
                if st != 'AtStart':
                    findings.append({'rule': 'R-CURSOR', 'key': 'R-CURSOR|%s|%s' % (b.q, name), 'function': b.q,
                                     'resource': name, 'scan_at': loc,
                                     'what': 'chunk scan of `%s` may start away from offset 0 (cursor moved by an earlier seek/read)' % name})
    findings += lim_find
    seen, out = set(), []
    for x in findings:
        if x['key'] not in seen:
            seen.add(x['key']); out.append(x)
    return instances, out
