"""R-TRUNC: a size given on the command line must be range-checked before it is narrowed to the 32-bit
fields of the dictionary (E4 instance with other sources and sinks)."""
from .. import taint as tm
from ..facts import callee_q


class CliTaint(tm.Taint):
    def seed_source_adts(self):
        pass


def run(facts, cg):
    saved = dict(tm.SOURCES)
    tm.SOURCES.clear()
    tm.SOURCES['clap_builder::parser::matches::arg_matches::ArgMatches::get_one'] = tm.V2
    try:
        t = CliTaint(facts)
        t.zero_hazard = set()
        # only usize / u64 typed option values are of interest: mask() keeps V2 on 64-bit integers
        rounds = t.run()
    finally:
        tm.SOURCES.clear()
        tm.SOURCES.update(saved)
    instances, findings = [], []
    n = 0
    for b in facts.bodies.values():
        if b.generated or b.crate != 'bita':
            continue
        for bi in b.live:
            for st in b.blocks[bi]['stmts']:
                if st['k'] == 'assign' and st['rv']['k'] == 'cast' and st['rv']['ck'].startswith('IntToInt') and st['rv']['op']['k'] in ('copy', 'move'):
                    src_ty = t.op_type(b, st['rv']['op'])
                    dst_ty = b.ty(st['rv']['ty'])
                    if src_ty.get('k') in ('int', 'uint') and dst_ty.get('k') in ('int', 'uint') and dst_ty.get('bits', 64) < src_ty.get('bits', 64):
                        lvl = tm.vlevel(t.op_level(b, st['rv']['op']))
                        if lvl < 2:
                            continue
                        n += 1
                        g = t.op_sanitised(b, st['rv']['op'], bi)
                        desc = t.desc(b, [st['rv']['op']])
                        inst = {'rule': 'R-TRUNC', 'function': b.q, 'at': st['loc'], 'operand': desc, 'to': dst_ty['s'], 'guarded': g is not None}
                        instances.append(inst)
                        if g is None:
                            key = 'R-TRUNC|%s|%s as %s' % (b.q, ','.join(desc), dst_ty['s'])
                            if key not in {x['key'] for x in findings}:
                                findings.append({'rule': 'R-TRUNC', 'key': key, 'function': b.q,
                                                 'what': 'a command line size (%s) is narrowed to %s at %s without a range check: the recorded value can differ from the requested one' % (','.join(desc), dst_ty['s'], st['loc'])})
    instances.append({'rule': 'R-TRUNC(meta)', 'narrowing_casts_of_cli_values': n, 'fixpoint_rounds': rounds})
    return instances, findings
