"""Pairing / ordering rules inside the library and the compress command."""
from ..facts import succs, callee_q
from ..paths import Explorer, Rule
from ..terms import Terms, simplify, has_call, has_field, show, freeze
from .r_steps import OK_OUTCOMES, exit_outcomes_from

WRITE_PRIM = 'bitar::clone_output::CloneOutput::write_offset'
IDX_REMOVE = 'bitar::chunk_index::ChunkIndex::remove'
STRIP = 'bitar::chunk_index::ChunkIndex::strip_chunks_already_in_place'
REORDER = 'bitar::chunk_index::ChunkIndex::reorder_ops'
DECODE = 'prost::message::Message::decode'
REMOVE_FILE = ('std::fs::remove_file', 'tokio::fs::remove_file::remove_file')


AW = 'tokio::io::util::async_write_ext::AsyncWriteExt::'
CLONE_OUT = 'bitar::clone_output::CloneOutput'
REORDER_OP = 'bitar::chunk_index::ReorderOp'


def _ty_mentions(b, ty, adt, depth=0):
    if ty.get('adt') == adt:
        return True
    if depth > 4:
        return False
    return any(_ty_mentions(b, b.ty(i), adt, depth + 1) for i in ty.get('args', []))


class Balance(Rule):
    """Every chunk written to the output leaves the clone index.  State: 'neutral' | 'credit' (a location was removed from the
    index and not written yet - feed) | 'owed' (something was written whose removal is still due - the reorder executor).
    A chunk may be written at several offsets (a loop of writes); what must not happen is that the next reorder operation
    is fetched, or the function left with success, while a removal is owed."""
    def __init__(self, b, out_f, idx_f):
        self.b = b
        self.out_f, self.idx_f = out_f, idx_f
        self.init = 'neutral'
        self.violations = []
        self.writes = 0
        self.removes = 0

    def on_term(self, b, bi, t, bal):
        if t['k'] != 'call' or 'q' not in t['callee']:
            return bal
        q = callee_q(t)
        gq = t['callee']['q']
        is_write = False
        if t['args']:
            base = b.base_of(t['args'][0])
            if base and gq.startswith(AW + 'write') and any(x[0] == CLONE_OUT and x[1] == self.out_f for x in base[1]):
                is_write = True
        if q == WRITE_PRIM:
            is_write = True
        if is_write:
            self.writes += 1
            return 'credit' if bal == 'credit' else 'owed'
        if q == IDX_REMOVE and t['args']:
            base = b.base_of(t['args'][0])
            if base and any(x[1] == self.idx_f for x in base[1]):
                self.removes += 1
                return 'neutral' if bal == 'owed' else 'credit'
        if gq == 'core::iter::traits::iterator::Iterator::next' and not t['dest']['p'] and _ty_mentions(b, b.lty(t['dest']['l']), REORDER_OP):
            if bal == 'owed':
                self.violations.append(('second-write', t['loc']))
            return 'neutral'
        return bal

    def on_exit(self, b, bi, bal, outcome):
        if outcome in OK_OUTCOMES and bal == 'owed':
            self.violations.append(('exit', b.blocks[bi]['term']['loc']))


def _is_clone_output_place(b, pl):
    base = b.base_of_place(pl)
    return bool(base) and any(x[0] == CLONE_OUT for x in base[1])


class WriteOwed(Rule):
    """The converse for the seed/archive feed: a location taken out of the clone index (`remove` returned Some) is written -
    the function is not left with success before the loop over that location's offsets was entered.  (A chunk that is taken
    out and then skipped - "nothing to write for a block of zeros" - is never asked for again: a hole with whatever the output
    held there.)"""
    def __init__(self, b, T, idx_f, some_edges, heads):
        self.b, self.T, self.idx_f = b, T, idx_f
        self.some_edges = some_edges        # switch block -> target taken when the removed location is Some
        self.heads = heads                  # blocks whose terminator fetches the next offset of a removed location
        self.init = 'none'
        self.violations = []
        self.entered = 0

    def on_term(self, b, bi, t, st):
        if bi in self.some_edges and t['k'] == 'switch':
            return [(s2, 'credit' if s2 == self.some_edges[bi] else 'none') for s2 in set(succs(t))]
        if bi in self.heads and st == 'credit':
            self.entered += 1
            return 'none'
        return st

    def on_exit(self, b, bi, st, outcome):
        if outcome in OK_OUTCOMES and st == 'credit':
            self.violations.append(b.blocks[bi]['term']['loc'])


def run(facts, cg):
    T = Terms(facts)
    instances, findings = [], []

    def finding(rule, b_q, what, detail):
        key = '%s|%s|%s' % (rule, b_q, what)
        if key not in {x['key'] for x in findings}:
            findings.append({'rule': rule, 'key': key, 'function': b_q, 'what': detail})

    # ---------------------------------------------------------------- R-REMOVE-ON-WRITE
    from .r_misc import out_field, index_field
    of, xf = out_field(facts), index_field(facts)
    users = []
    for b in facts.bodies.values():
        if not b.id.startswith('bitar::clone_output::') or b.generated or of is None or xf is None:
            continue
        r = Balance(b, of, xf)
        Explorer(b, r).run()
        if not r.writes:
            continue
        if b.q == WRITE_PRIM or b.q.startswith(WRITE_PRIM + '::'):
            continue            # the primitive itself (while it is a function of its own): its callers carry the obligation
        users.append(b.id)
        instances.append({'rule': 'R-REMOVE-ON-WRITE', 'function': b.q, 'write_sites': r.writes, 'remove_sites': r.removes})
        for kind, loc in r.violations:
            finding('R-REMOVE-ON-WRITE', b.q, kind, 'a chunk is written to the output without being removed from the clone index (%s at %s)' % (kind, loc))
    # the converse (feed): removed from the index => written
    from .r_misc import _variant_edges
    n_owed = 0
    for b in facts.bodies.values():
        if not b.id.startswith('bitar::clone_output::') or b.generated or of is None or xf is None:
            continue
        some_edges, rm_locals = {}, []
        for bi, t in b.calls():
            if 'q' in t['callee'] and callee_q(t) == IDX_REMOVE and t['args'] and not t['dest']['p']:
                base = b.base_of(t['args'][0])
                if base and any(x[1] == xf for x in base[1]):
                    for sbi, tgt in _variant_edges(b, t['dest']['l'], 1):
                        some_edges[sbi] = tgt
                    rm_locals.append(t['dest']['l'])
        if not some_edges:
            continue
        heads = set()
        for bi, t in b.calls():
            if 'q' in t['callee'] and t['callee']['q'] == 'core::iter::traits::iterator::Iterator::next' and t['args']:
                it = simplify(T.of_operand(b, t['args'][0]))
                if has_call(it, 'ChunkIndex::remove'):
                    heads.add(bi)
        n_owed += 1
        r = WriteOwed(b, T, xf, some_edges, heads)
        Explorer(b, r).run()
        # ... and every turn of that loop writes: from the Some edge of the loop head no way back to it (or out with success)
        # without a write to the output
        skipped = []
        for h in heads:
            for sbi, tgt in _variant_edges(b, b.blocks[h]['term']['dest']['l'], 1):
                class Turn(Rule):
                    init = False

                    def on_term(self_, b_, bi, t, wrote):
                        if bi == h:
                            if not wrote:
                                skipped.append(t['loc'])
                            return []
                        if t['k'] == 'call' and 'q' in t['callee'] and t['callee']['q'].startswith(AW + 'write') and t['args']:
                            base = b_.base_of(t['args'][0])
                            if base and any(x[0] == CLONE_OUT and x[1] == of for x in base[1]):
                                return True
                        return wrote

                    def on_exit(self_, b_, bi, wrote, outcome):
                        if outcome in OK_OUTCOMES and not wrote:
                            skipped.append(b_.blocks[bi]['term']['loc'])
                Explorer(b, Turn(), start=tgt).run()
        # ... and the feed turns a chunk down for one reason only: the clone index does not want it.  No success exit before the
        # index was asked (a side table that says "nothing of this size is missing" can be wrong; the chunk is not asked for again)
        rm_blocks = {bi for bi, t in b.calls() if 'q' in t['callee'] and callee_q(t) == IDX_REMOVE}
        early = []

        class Asked(Rule):
            init = False

            def on_term(self_, b_, bi, t, asked):
                return True if bi in rm_blocks else asked

            def on_exit(self_, b_, bi, asked, outcome):
                if outcome in OK_OUTCOMES and not asked:
                    early.append(b_.blocks[bi]['term']['loc'])
        Explorer(b, Asked()).run()
        if early:
            finding('R-WRITE-ON-REMOVE', b.q, 'refused-before-lookup', 'the feed can report success (%s) without having asked the clone index for the chunk: a chunk the output '
                    'still needs is turned down on other grounds and never written' % early[0])
        # ... and a chunk is written only where a chunk of its size belongs: its length is compared with the size the location
        # records before the loop over the offsets (the hash is the dictionary's word, it may be truncated or simply wrong)
        dom_f = b.dominators()
        size_cmp = []
        for sbi in b.live:
            for st_ in b.blocks[sbi]['stmts']:
                if st_['k'] == 'assign' and st_['rv']['k'] == 'binop' and st_['rv']['op'] in ('Eq', 'Ne'):
                    ta = simplify(T.of_operand(b, st_['rv']['a']))
                    tb = simplify(T.of_operand(b, st_['rv']['b']))
                    for x, y in ((ta, tb), (tb, ta)):
                        if (has_call(x, 'VerifiedChunk::len') or has_call(x, 'Chunk::len') or has_call(x, '::len')) and has_call(y, 'ChunkLocation::size'):
                            size_cmp.append(sbi)
        sized = bool(heads) and all(any(c in dom_f.get(h, ()) for c in size_cmp) for h in heads)
        if heads and not sized:
            finding('R-WRITE-ON-REMOVE', b.q, 'size-unchecked', 'a chunk is written at the offsets of a location without its length having been compared with the size that '
                    'location records: a chunk of another size (an inconsistent dictionary, a truncated-hash collision) is written over its neighbours and beyond the source')
        instances.append({'rule': 'R-WRITE-ON-REMOVE', 'function': b.q, 'removed_location_dispatches': len(some_edges), 'offset_loops': len(heads), 'length_compared_with_location_size': sized,
                          'success_exits_with_unwritten_location': len(r.violations), 'loop_turns_without_write': len(skipped)})
        if not heads:
            finding('R-WRITE-ON-REMOVE', b.q, 'anchor', 'a location is taken out of the clone index but no loop over its offsets is found (cannot decide)')
        for loc in r.violations[:1]:
            finding('R-WRITE-ON-REMOVE', b.q, 'removed-not-written', 'a chunk location is taken out of the clone index and the function can report success (%s) without '
                    'entering the loop that writes it to its offsets: the chunk is never asked for again, the output keeps what it held there' % loc)
        for loc in skipped[:1]:
            finding('R-WRITE-ON-REMOVE', b.q, 'offset-skipped', 'a turn of the loop over a removed location\'s offsets can pass without a write to the output (%s)' % loc)
    if n_owed < 1:
        finding('R-WRITE-ON-REMOVE', '-', 'floor', 'the feed of verified chunks (remove from the clone index, then write) was not found (cannot decide)')
    if len(users) < 2:
        finding('R-REMOVE-ON-WRITE', '-', 'floor', 'expected the seed feed and the reorder executor to write the output (found %d writing functions)' % len(users))

    # ---------------------------------------------------------------- R-INDEX-SHRINKS: the set of wanted chunks of an output only shrinks
    # Once a CloneOutput exists, locations leave its index (written, found in place) and never come back: a location that is
    # put back "because the write failed" is written a second time when the chunk arrives again.
    n_co = 0
    for b in facts.bodies.values():
        if not b.id.startswith('bitar::clone_output::') or b.generated or xf is None:
            continue
        n_co += 1
        for bi, t in b.calls():
            if 'q' not in t['callee'] or not t['args']:
                continue
            q = callee_q(t)
            base = b.base_of(t['args'][0])
            on_index = bool(base) and any(x[1] == xf for x in base[1])
            if on_index and (q == 'bitar::chunk_index::ChunkIndex::add_chunk' or q.endswith(('HashMap::insert', 'HashMap::extend', 'HashMap::entry'))):
                finding('R-INDEX-SHRINKS', b.q, 'grows:' + q.split('::')[-1], 'the clone index of the output gets an entry back at %s: a location that was already '
                        'written (or found in place) is wanted again and will be written a second time' % t['loc'])
        for bi in b.live:
            for st in b.blocks[bi]['stmts']:
                if st['k'] == 'assign' and st['pl']['p'] and st['pl']['p'][-1]['k'] == 'field' and st['pl']['p'][-1].get('n') == xf \
                        and b.lty(st['pl']['l']).get('k') in ('ref', 'rawptr', 'adt', None) and _is_clone_output_place(b, st['pl']):
                    finding('R-INDEX-SHRINKS', b.q, 'replaced', 'the clone index of an existing output is replaced at %s' % st['loc'])
    instances.append({'rule': 'R-INDEX-SHRINKS', 'bodies_checked': n_co})
    if n_co < 3:
        finding('R-INDEX-SHRINKS', '-', 'floor', 'the functions of CloneOutput were not found (cannot decide)')

    # ---------------------------------------------------------------- R-STRIP: a chunk leaves the wanted set only when no offset of it remains
    # strip_chunks_already_in_place rebuilds the clone index through a filter: an entry is dropped (the closure returns None)
    # only behind the "its list of remaining offsets is empty" edge.  A shortcut that drops an entry on another test (a prefix
    # comparison, a count) leaves wanted places unwritten - nothing asks for that chunk any more.
    from .r_readers import _reachable_without_edge, _reachable_without_edges

    def empty_edges(b):
        """(switch block, target) pairs taken when a list of offsets was found empty"""
        out = []
        for cbi, ct in b.calls():
            if 'q' in ct['callee'] and callee_q(ct).endswith(('Vec::is_empty', '[T]::is_empty')) and ct['t'] is not None and not ct['dest']['p']:
                sw = b.blocks[ct['t']]['term']
                if sw['k'] == 'switch' and sw['op']['k'] in ('copy', 'move') and sw['op']['pl']['l'] == ct['dest']['l']:
                    out.append((ct['t'], sw['otherwise']))
        for bi in b.live:
            sw = b.blocks[bi]['term']
            if sw['k'] != 'switch':
                continue
            ct = simplify(T.of_operand(b, sw['op']))
            if isinstance(ct, tuple) and ct[0] == 'binop' and ct[1] in ('Eq', 'Ne') and has_call(ct, '::len') and ('const', 0) in (ct[2], ct[3]):
                out.append((bi, sw['otherwise'] if ct[1] == 'Eq' else dict(zip(sw['vals'], sw['targets'])).get(0)))
        return [(x, y) for x, y in out if y is not None]
    n_strip = 0
    for b in facts.bodies.values():
        par = facts.original.get(b.raw.get('parent') or '')
        if b.generated:
            continue
        in_closure = b.raw['kind'] == 'Closure' and par is not None and par.q == STRIP
        if not in_closure and b.q != STRIP:
            continue
        empties = empty_edges(b)
        if in_closure and b.lty(0).get('adt') == 'core::option::Option':
            # form A: a filter_map closure - an entry is dropped by returning None
            drops = [(bi, st) for bi in b.live for st in b.blocks[bi]['stmts']
                     if st['k'] == 'assign' and not st['pl']['p'] and st['pl']['l'] == 0 and st['rv']['k'] == 'agg' and st['rv'].get('vname') == 'None']
            if not drops:
                continue
            n_strip += 1
            for bi, st in drops:
                ok = any(not _reachable_without_edge(b, (sbi, tg), bi) for sbi, tg in empties)
                instances.append({'rule': 'R-STRIP', 'function': b.q, 'dropped_at': st['loc'], 'behind_empty_offsets_edge': ok})
                if not ok:
                    finding('R-STRIP', par.q, 'dropped-with-offsets-left', 'an entry is dropped from the set of wanted chunks at %s on a path that has not found its list of '
                            'remaining offsets empty: places that still need the chunk are never written' % st['loc'])
        elif in_closure and b.lty(0).get('k') == 'bool' and any('q' in t_['callee'] and callee_q(t_).endswith('::retain') for _, t_ in (facts.bodies.get(par.id) or par).calls()):
            # form B: a retain closure - an entry is dropped by returning false
            n_strip += 1
            for bi in b.live:
                for st in b.blocks[bi]['stmts']:
                    if st['k'] != 'assign' or st['pl']['p'] or st['pl']['l'] != 0:
                        continue
                    rv = st['rv']
                    if rv['k'] == 'use' and rv['op']['k'] == 'const':
                        if rv['op'].get('int'):
                            continue        # keep
                        ok = any(not _reachable_without_edge(b, (sbi, tg), bi) for sbi, tg in empties)
                    else:
                        term = simplify(T.of_rvalue(b, rv, 0))
                        inner = term[2] if isinstance(term, tuple) and term[0] == 'unop' and term[1] == 'Not' else None
                        ok = (inner is not None and inner[0] == 'call' and inner[1].endswith('::is_empty')) or \
                            (isinstance(term, tuple) and term[0] == 'binop' and term[1] in ('Ne', 'Gt') and has_call(term, '::len') and ('const', 0) in (term[2], term[3]))
                    instances.append({'rule': 'R-STRIP', 'function': b.q, 'keep_decided_at': st['loc'], 'false_only_when_empty': ok})
                    if not ok:
                        finding('R-STRIP', par.q, 'dropped-with-offsets-left', 'the retain filter can drop an entry at %s although its list of remaining offsets was not found empty: '
                                'places that still need the chunk are never written' % st['loc'])
        elif b.q == STRIP:
            # form C: a loop that copies the entries to keep into a new map - an entry is dropped by starting the next turn
            # without having been inserted
            inserts = {bi for bi, t_ in b.calls() if 'q' in t_['callee'] and callee_q(t_).endswith(('HashMap::insert', 'HashMap::entry', 'Vec::push'))}
            if not inserts:
                continue
            from .r_misc import _variant_edges
            eset = set(empties)
            for hbi, ht in b.calls():
                if 'q' not in ht['callee'] or ht['callee']['q'] != 'core::iter::traits::iterator::Iterator::next' or ht['dest']['p']:
                    continue
                for sbi, tgt in _variant_edges(b, ht['dest']['l'], 1):
                    seen_insert = []
                    skipped = []

                    class Turn(Rule):
                        init = (False, False)

                        def on_term(self_, b_, bi, t, stt):
                            ins, emp = stt
                            if bi == hbi:
                                if ins:
                                    seen_insert.append(1)
                                elif not emp:
                                    skipped.append(t['loc'])
                                return []
                            if bi in inserts:
                                ins = True
                            if t['k'] == 'switch' and any((bi, s2) in eset for s2 in succs(t)):
                                return [(s2, (ins, emp or (bi, s2) in eset)) for s2 in set(succs(t))]
                            return (ins, emp)
                    Explorer(b, Turn(), start=tgt).run()
                    if not seen_insert:
                        continue            # not the loop over the entries (an inner loop over offsets)
                    n_strip += 1
                    instances.append({'rule': 'R-STRIP', 'function': b.q, 'loop_at': ht['loc'], 'turns_that_drop_without_empty_test': len(skipped)})
                    if skipped:
                        finding('R-STRIP', b.q, 'dropped-with-offsets-left', 'a turn of the loop that rebuilds the set of wanted chunks can end without keeping the entry '
                                'although its list of remaining offsets was not found empty')
    if n_strip < 1:
        finding('R-STRIP', '-', 'floor', 'the filter that drops chunks already in place was not found (cannot decide)')

    # ---------------------------------------------------------------- R-STOREONCE: a chunk parked in memory is read from the output once
    # The planner emits one StoreInMem per chunk that is about to overwrite R; only the first finds R intact.  Reading R
    # again after a copy has landed on part of it replaces the good in-memory copy with a mix (and it is written unverified).
    from .r_steps import bool_switch_polarity
    from ..paths import switch_edges
    VER = 'bitar::chunk::VerifiedChunk'
    n_store = 0
    for b in facts.bodies.values():
        if not b.id.startswith('bitar::clone_output::') or b.generated:
            continue
        dom = None
        for bi, t in b.calls():
            # a store through the entry API can only happen when the key is absent (VacantEntry) or keeps what is there (or_insert)
            if 'q' in t['callee'] and callee_q(t).endswith(('VacantEntry::insert', 'VacantEntry::insert_entry', 'Entry::or_insert', 'Entry::or_insert_with',
                                                             'Entry::or_insert_with_key')) and len(t['args']) == 2:
                a1 = t['args'][1]
                carried = b.lty(a1['pl']['l']) if a1['k'] in ('copy', 'move') else {}
                if carried.get('adt') == VER or (callee_q(t).endswith(('or_insert_with', 'or_insert_with_key')) and b.lty(t['dest']['l']).get('k') == 'ref'
                                                  and b.ty(b.lty(t['dest']['l'])['args'][0]).get('adt') == VER):
                    n_store += 1
                    instances.append({'rule': 'R-STOREONCE', 'function': b.q, 'insert_at': t['loc'], 'guarded_by_absence_test': 'entry API'})
                continue
            if 'q' not in t['callee'] or not callee_q(t).endswith('HashMap::insert') or len(t['args']) < 3:
                continue
            a2 = t['args'][2]
            if a2['k'] not in ('copy', 'move') or b.lty(a2['pl']['l']).get('adt') != VER:
                continue
            n_store += 1
            dom = dom or b.dominators()
            mbase = b.base_of(t['args'][0])
            guarded = False
            for cbi, ct in b.calls():
                if 'q' not in ct['callee'] or not callee_q(ct).endswith(('HashMap::contains_key', 'HashMap::get')) or ct['t'] is None:
                    continue
                if b.base_of(ct['args'][0])[0] != mbase[0]:
                    continue
                sw = b.blocks[ct['t']]['term']
                if sw['k'] != 'switch':
                    continue
                if callee_q(ct).endswith('contains_key'):
                    term, flipped = bool_switch_polarity(b, T, sw)
                    for v, tgt in switch_edges(sw):
                        val = (v != 0) if v is not None else True
                        if flipped:
                            val = not val
                        if val is False and tgt in dom.get(bi, ()) and tgt != ct['t']:
                            guarded = True
                else:
                    # match map.get(k) { None => insert .. }: discriminant 0 = None
                    for v, tgt in switch_edges(sw):
                        if v == 0 and tgt in dom.get(bi, ()):
                            guarded = True
            # ... and it is stored under the hash the plan names it by (the `hash` of the reorder operation, which may be truncated to the
            # archive's hash length): stored under the full digest of what was read back, the later `remove(op.hash)` never finds it -
            # the copy re-reads a place that has been overwritten by then
            from ..terms import walk
            kt = simplify(T.resolve_env(simplify(T.of_operand(b, t['args'][1]))))
            own_key = has_field(kt, 'hash') and not any(n_[0] == 'call' and n_[1].split('::')[-1] in ('hash', 'b2_digest', 'verify', 'digest', 'finalize', 'hash_sum') for n_ in walk(kt))
            if not own_key:
                finding('R-STOREONCE', b.q, 'stored-under-another-key', 'the chunk parked in memory at %s is stored under %s, not under the hash its reorder operation names it by: '
                        'a plan made with truncated hashes never finds it again' % (t['loc'], show(kt)[:60]))
            instances.append({'rule': 'R-STOREONCE', 'function': b.q, 'insert_at': t['loc'], 'guarded_by_absence_test': guarded, 'stored_under_the_operations_hash': own_key})
            if not guarded:
                finding('R-STOREONCE', b.q, 'unguarded-store', 'a chunk read back from the output is put into the in-memory store at %s without testing that it is not '
                        'there yet: a later StoreInMem of the same chunk re-reads its (by then partly overwritten) place and replaces the good copy' % t['loc'])
    if n_store < 1:
        finding('R-STOREONCE', '-', 'floor', 'no in-memory store of chunks found in the reorder executor (cannot decide)')

    # ---------------------------------------------------------------- R-DOMINATES strip ≺ reorder, roles
    for (b, bi, t) in cg.calls_to(REORDER):
        if b.crate != 'bitar' or b.q.startswith('bitar::chunk_index::'):
            continue
        dom = b.dominators()
        strips = [(sbi, st) for sbi, st in b.calls() if 'q' in st['callee'] and callee_q(st) == STRIP]
        ok = any(sbi in dom.get(bi, ()) for sbi, _ in strips)
        recv_r = b.base_of(t['args'][0])
        arg_r = b.base_of(t['args'][1])
        inst = {'rule': 'R-DOMINATES(strip<reorder)', 'function': b.q, 'reorder_at': t['loc'], 'strip_sites': [s['loc'] for _, s in strips]}
        instances.append(inst)
        if not ok:
            finding('R-DOMINATES', b.q, 'strip-before-reorder', 'reorder_ops at %s is not preceded by strip_chunks_already_in_place on every path' % t['loc'])
        for sbi, st in strips:
            recv_s = b.base_of(st['args'][0])
            arg_s = b.base_of(st['args'][1])
            if (recv_s[0], tuple(x[1] for x in recv_s[1])) != (recv_r[0], tuple(x[1] for x in recv_r[1])):
                finding('R-WIRE', b.q, 'strip-reorder-receiver', 'strip and reorder_ops are called on different indexes')
            if not any(x[1] == xf for x in arg_s[1]) or not any(x[1] == xf for x in arg_r[1]):
                finding('R-WIRE', b.q, 'strip-reorder-argument', 'strip/reorder_ops must take the clone index as argument (roles swapped?)')

    # ---------------------------------------------------------------- R-DOMINATES header checksum ≺ decode
    for (b, bi, t) in cg.calls_to(DECODE):
        if b.crate != 'bitar':
            continue
        dom = b.dominators()
        # comparison of HashSum with the freshly computed digest; unequal edge must leave with Err
        from .r_steps import hash_compare_sites
        sites = hash_compare_sites(b, T, lambda a: True, lambda a: has_call(a, '::finalize'))
        inst = {'rule': 'R-DOMINATES(checksum<decode)', 'function': b.q, 'decode_at': t['loc'], 'compare_sites': [s[1]['loc'] for s in sites]}
        instances.append(inst)
        good = False
        for cbi, ct, unequal, equal in sites:
            if cbi in dom.get(bi, ()) and unequal is not None and exit_outcomes_from(b, unequal) <= {'Err'}:
                # decode must be on the equal side: the unequal target must not reach decode
                good = True
        if not good:
            finding('R-DOMINATES', b.q, 'checksum-before-decode', 'dictionary decoded at %s without a dominating header checksum comparison whose mismatch returns an error' % t['loc'])

    # ---------------------------------------------------------------- R-TEMPREMOVE (compress command)
    for b in facts.bodies.values():
        if b.crate != 'bita':
            continue
        removes = [(bi, t) for bi, t in b.calls() if 'q' in t['callee'] and callee_q(t) in REMOVE_FILE]
        creates = []
        # callee that creates a file at a path parameter: any crate-local call passing a path whose callee opens it with create
        from .r_openflags import chains
        for bi, t in b.calls():
            d = t['callee'].get('rdef') or t['callee'].get('def')
            if d in facts.bodies and facts.bodies[d].crate == 'bita':
                from ..typestate import coroutine_of
                cb, pm = coroutine_of(facts, facts.bodies[d])
                target = facts.bodies[cb] if cb else facts.bodies[d]
                for ch in chains(target):
                    if any('create' in r[1] or 'create_new' in r[1] for r in ch['table']) and ch['path'] \
                            and ch['path'].split('.')[-1] != 'output':
                        # which argument is that path parameter?
                        for u in target.raw['upvar_names']:
                            if u['name'] == ch['path'].split('.')[0]:
                                idx = u['pl']['p'][0]['i'] if u['pl']['p'] else None
                                inv = {v: k for k, v in (pm or {}).items()}
                                if idx in inv:
                                    arg = t['args'][inv[idx] - 1]
                                    creates.append((bi, t, freeze(simplify(T.of_operand(b, arg))), ch['path']))
        if not creates:
            continue
        created_terms = {c[2] for c in creates}

        class Step(Rule):
            init = False
            def __init__(s):
                s.violations = []
                s.ok_exits = 0
            def on_term(s, b_, bi, t, st):
                if t['k'] == 'call' and 'q' in t['callee'] and callee_q(t) in REMOVE_FILE:
                    term = freeze(simplify(T.of_operand(b_, t['args'][0])))
                    if term in created_terms:
                        return True
                return st
            def on_exit(s, b_, bi, st, outcome):
                if outcome in OK_OUTCOMES:
                    s.ok_exits += 1
                    if not st:
                        s.violations.append(b_.blocks[bi]['term']['loc'])
        r = Step()
        Explorer(b, r).run()
        instances.append({'rule': 'R-TEMPREMOVE', 'function': b.q, 'temp_created_via': sorted({c[1]['loc'] for c in creates}),
                          'path_terms': sorted({show(c[2]) for c in creates}), 'remove_sites': [t['loc'] for _, t in removes], 'ok_exits': r.ok_exits})
        if r.violations:
            finding('R-TEMPREMOVE', b.q, 'not-removed', 'a success path leaves the temporary chunk file behind')
        # created after the output was opened (C14: a refusal creates nothing)
        dom = b.dominators()
        from .r_openflags import is_oo
        opens = [bi for bi, t in b.calls() if 'q' in t['callee'] and is_oo(callee_q(t)) and callee_q(t).endswith('::open')]
        for cbi, ct, _, _ in creates:
            if opens and not any(o in dom.get(cbi, ()) for o in opens):
                finding('R-DOMINATES', b.q, 'temp-before-output-open', 'the temporary file is created before the output open could refuse')
    return instances, findings
