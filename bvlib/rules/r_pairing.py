"""Pairing / ordering rules inside the library and the compress command."""
from ..facts import succs, callee_q
from ..paths import Explorer, Rule
from ..terms import Terms, simplify, has_call, has_field, show, freeze
from .r_steps import OK_OUTCOMES, exit_outcomes_from

WRITE_PRIM = 'bitar::clone_output::CloneOutput::write_offset'
IDX_REMOVE = 'bitar::chunk_index::ChunkIndex::remove'
STRIP = 'bitar::chunk_index::ChunkIndex::strip_chunks_already_in_place'
REORDER = 'bitar::chunk_index::ChunkIndex::reorder_ops'
DECODE = 'prost::message::Message::decode'
REMOVE_FILE = ('std::fs::remove_file', 'tokio::fs::remove_file::remove_file')


AW = 'tokio::io::util::async_write_ext::AsyncWriteExt::'
CLONE_OUT = 'bitar::clone_output::CloneOutput'
REORDER_OP = 'bitar::chunk_index::ReorderOp'


def _ty_mentions(b, ty, adt, depth=0):
    if ty.get('adt') == adt:
        return True
    if depth > 4:
        return False
    return any(_ty_mentions(b, b.ty(i), adt, depth + 1) for i in ty.get('args', []))


class Balance(Rule):
    """Every chunk written to the output leaves the clone index.  State: 'neutral' | 'credit' (a location was removed from the
    index and not written yet - feed) | 'owed' (something was written whose removal is still due - the reorder executor).
    A chunk may be written at several offsets (a loop of writes); what must not happen is that the next reorder operation
    is fetched, or the function left with success, while a removal is owed."""
    def __init__(self, b, out_f, idx_f):
        self.b = b
        self.out_f, self.idx_f = out_f, idx_f
        self.init = 'neutral'
        self.violations = []
        self.writes = 0
        self.removes = 0

    def on_term(self, b, bi, t, bal):
        if t['k'] != 'call' or 'q' not in t['callee']:
            return bal
        q = callee_q(t)
        gq = t['callee']['q']
        is_write = False
        if t['args']:
            base = b.base_of(t['args'][0])
            if base and gq.startswith(AW + 'write') and any(x[0] == CLONE_OUT and x[1] == self.out_f for x in base[1]):
                is_write = True
        if q == WRITE_PRIM:
            is_write = True
        if is_write:
            self.writes += 1
            return 'credit' if bal == 'credit' else 'owed'
        if q == IDX_REMOVE and t['args']:
            base = b.base_of(t['args'][0])
            if base and any(x[1] == self.idx_f for x in base[1]):
                self.removes += 1
                return 'neutral' if bal == 'owed' else 'credit'
        if gq == 'core::iter::traits::iterator::Iterator::next' and not t['dest']['p'] and _ty_mentions(b, b.lty(t['dest']['l']), REORDER_OP):
            if bal == 'owed':
                self.violations.append(('second-write', t['loc']))
            return 'neutral'
        return bal

    def on_exit(self, b, bi, bal, outcome):
        if outcome in OK_OUTCOMES and bal == 'owed':
            self.violations.append(('exit', b.blocks[bi]['term']['loc']))


def run(facts, cg):
    T = Terms(facts)
    instances, findings = [], []

    def finding(rule, b_q, what, detail):
        key = '%s|%s|%s' % (rule, b_q, what)
        if key not in {x['key'] for x in findings}:
            findings.append({'rule': rule, 'key': key, 'function': b_q, 'what': detail})

    # ---------------------------------------------------------------- R-REMOVE-ON-WRITE
    from .r_misc import out_field, index_field
    of, xf = out_field(facts), index_field(facts)
    users = []
    for b in facts.bodies.values():
        if not b.id.startswith('bitar::clone_output::') or b.generated or of is None or xf is None:
            continue
        r = Balance(b, of, xf)
        Explorer(b, r).run()
        if not r.writes:
            continue
        if b.q == WRITE_PRIM or b.q.startswith(WRITE_PRIM + '::'):
            continue            # the primitive itself (while it is a function of its own): its callers carry the obligation
        users.append(b.id)
        instances.append({'rule': 'R-REMOVE-ON-WRITE', 'function': b.q, 'write_sites': r.writes, 'remove_sites': r.removes})
        for kind, loc in r.violations:
            finding('R-REMOVE-ON-WRITE', b.q, kind, 'a chunk is written to the output without being removed from the clone index (%s at %s)' % (kind, loc))
    if len(users) < 2:
        finding('R-REMOVE-ON-WRITE', '-', 'floor', 'expected the seed feed and the reorder executor to write the output (found %d writing functions)' % len(users))

    # ---------------------------------------------------------------- R-STOREONCE: a chunk parked in memory is read from the output once
    # The planner emits one StoreInMem per chunk that is about to overwrite R; only the first finds R intact.  Reading R
    # again after a copy has landed on part of it replaces the good in-memory copy with a mix (and it is written unverified).
    from .r_steps import bool_switch_polarity
    from ..paths import switch_edges
    VER = 'bitar::chunk::VerifiedChunk'
    n_store = 0
    for b in facts.bodies.values():
        if not b.id.startswith('bitar::clone_output::') or b.generated:
            continue
        dom = None
        for bi, t in b.calls():
            # a store through the entry API can only happen when the key is absent (VacantEntry) or keeps what is there (or_insert)
            if 'q' in t['callee'] and callee_q(t).endswith(('VacantEntry::insert', 'VacantEntry::insert_entry', 'Entry::or_insert', 'Entry::or_insert_with',
                                                             'Entry::or_insert_with_key')) and len(t['args']) == 2:
                a1 = t['args'][1]
                carried = b.lty(a1['pl']['l']) if a1['k'] in ('copy', 'move') else {}
                if carried.get('adt') == VER or (callee_q(t).endswith(('or_insert_with', 'or_insert_with_key')) and b.lty(t['dest']['l']).get('k') == 'ref'
                                                  and b.ty(b.lty(t['dest']['l'])['args'][0]).get('adt') == VER):
                    n_store += 1
                    instances.append({'rule': 'R-STOREONCE', 'function': b.q, 'insert_at': t['loc'], 'guarded_by_absence_test': 'entry API'})
                continue
            if 'q' not in t['callee'] or not callee_q(t).endswith('HashMap::insert') or len(t['args']) < 3:
                continue
            a2 = t['args'][2]
            if a2['k'] not in ('copy', 'move') or b.lty(a2['pl']['l']).get('adt') != VER:
                continue
            n_store += 1
            dom = dom or b.dominators()
            mbase = b.base_of(t['args'][0])
            guarded = False
            for cbi, ct in b.calls():
                if 'q' not in ct['callee'] or not callee_q(ct).endswith(('HashMap::contains_key', 'HashMap::get')) or ct['t'] is None:
                    continue
                if b.base_of(ct['args'][0])[0] != mbase[0]:
                    continue
                sw = b.blocks[ct['t']]['term']
                if sw['k'] != 'switch':
                    continue
                if callee_q(ct).endswith('contains_key'):
                    term, flipped = bool_switch_polarity(b, T, sw)
                    for v, tgt in switch_edges(sw):
                        val = (v != 0) if v is not None else True
                        if flipped:
                            val = not val
                        if val is False and tgt in dom.get(bi, ()) and tgt != ct['t']:
                            guarded = True
                else:
                    # match map.get(k) { None => insert .. }: discriminant 0 = None
                    for v, tgt in switch_edges(sw):
                        if v == 0 and tgt in dom.get(bi, ()):
                            guarded = True
            instances.append({'rule': 'R-STOREONCE', 'function': b.q, 'insert_at': t['loc'], 'guarded_by_absence_test': guarded})
            if not guarded:
                finding('R-STOREONCE', b.q, 'unguarded-store', 'a chunk read back from the output is put into the in-memory store at %s without testing that it is not '
                        'there yet: a later StoreInMem of the same chunk re-reads its (by then partly overwritten) place and replaces the good copy' % t['loc'])
    if n_store < 1:
        finding('R-STOREONCE', '-', 'floor', 'no in-memory store of chunks found in the reorder executor (cannot decide)')

    # ---------------------------------------------------------------- R-DOMINATES strip ≺ reorder, roles
    for (b, bi, t) in cg.calls_to(REORDER):
        if b.crate != 'bitar' or b.q.startswith('bitar::chunk_index::'):
            continue
        dom = b.dominators()
        strips = [(sbi, st) for sbi, st in b.calls() if 'q' in st['callee'] and callee_q(st) == STRIP]
        ok = any(sbi in dom.get(bi, ()) for sbi, _ in strips)
        recv_r = b.base_of(t['args'][0])
        arg_r = b.base_of(t['args'][1])
        inst = {'rule': 'R-DOMINATES(strip<reorder)', 'function': b.q, 'reorder_at': t['loc'], 'strip_sites': [s['loc'] for _, s in strips]}
        instances.append(inst)
        if not ok:
            finding('R-DOMINATES', b.q, 'strip-before-reorder', 'reorder_ops at %s is not preceded by strip_chunks_already_in_place on every path' % t['loc'])
        for sbi, st in strips:
            recv_s = b.base_of(st['args'][0])
            arg_s = b.base_of(st['args'][1])
            if (recv_s[0], tuple(x[1] for x in recv_s[1])) != (recv_r[0], tuple(x[1] for x in recv_r[1])):
                finding('R-WIRE', b.q, 'strip-reorder-receiver', 'strip and reorder_ops are called on different indexes')
            if not any(x[1] == xf for x in arg_s[1]) or not any(x[1] == xf for x in arg_r[1]):
                finding('R-WIRE', b.q, 'strip-reorder-argument', 'strip/reorder_ops must take the clone index as argument (roles swapped?)')

    # ---------------------------------------------------------------- R-DOMINATES header checksum ≺ decode
    for (b, bi, t) in cg.calls_to(DECODE):
        if b.crate != 'bitar':
            continue
        dom = b.dominators()
        # comparison of HashSum with the freshly computed digest; unequal edge must leave with Err
        from .r_steps import hash_compare_sites
        sites = hash_compare_sites(b, T, lambda a: True, lambda a: has_call(a, '::finalize'))
        inst = {'rule': 'R-DOMINATES(checksum<decode)', 'function': b.q, 'decode_at': t['loc'], 'compare_sites': [s[1]['loc'] for s in sites]}
        instances.append(inst)
        good = False
        for cbi, ct, unequal, equal in sites:
            if cbi in dom.get(bi, ()) and unequal is not None and exit_outcomes_from(b, unequal) <= {'Err'}:
                # decode must be on the equal side: the unequal target must not reach decode
                good = True
        if not good:
            finding('R-DOMINATES', b.q, 'checksum-before-decode', 'dictionary decoded at %s without a dominating header checksum comparison whose mismatch returns an error' % t['loc'])

    # ---------------------------------------------------------------- R-TEMPREMOVE (compress command)
    for b in facts.bodies.values():
        if b.crate != 'bita':
            continue
        removes = [(bi, t) for bi, t in b.calls() if 'q' in t['callee'] and callee_q(t) in REMOVE_FILE]
        creates = []
        # callee that creates a file at a path parameter: any crate-local call passing a path whose callee opens it with create
        from .r_openflags import chains
        for bi, t in b.calls():
            d = t['callee'].get('rdef') or t['callee'].get('def')
            if d in facts.bodies and facts.bodies[d].crate == 'bita':
                from ..typestate import coroutine_of
                cb, pm = coroutine_of(facts, facts.bodies[d])
                target = facts.bodies[cb] if cb else facts.bodies[d]
                for ch in chains(target):
                    if any('create' in r[1] or 'create_new' in r[1] for r in ch['table']) and ch['path'] \
                            and ch['path'].split('.')[-1] != 'output':
                        # which argument is that path parameter?
                        for u in target.raw['upvar_names']:
                            if u['name'] == ch['path'].split('.')[0]:
                                idx = u['pl']['p'][0]['i'] if u['pl']['p'] else None
                                inv = {v: k for k, v in (pm or {}).items()}
                                if idx in inv:
                                    arg = t['args'][inv[idx] - 1]
                                    creates.append((bi, t, freeze(simplify(T.of_operand(b, arg))), ch['path']))
        if not creates:
            continue
        created_terms = {c[2] for c in creates}

        class Step(Rule):
            init = False
            def __init__(s):
                s.violations = []
                s.ok_exits = 0
            def on_term(s, b_, bi, t, st):
                if t['k'] == 'call' and 'q' in t['callee'] and callee_q(t) in REMOVE_FILE:
                    term = freeze(simplify(T.of_operand(b_, t['args'][0])))
                    if term in created_terms:
                        return True
                return st
            def on_exit(s, b_, bi, st, outcome):
                if outcome in OK_OUTCOMES:
                    s.ok_exits += 1
                    if not st:
                        s.violations.append(b_.blocks[bi]['term']['loc'])
        r = Step()
        Explorer(b, r).run()
        instances.append({'rule': 'R-TEMPREMOVE', 'function': b.q, 'temp_created_via': sorted({c[1]['loc'] for c in creates}),
                          'path_terms': sorted({show(c[2]) for c in creates}), 'remove_sites': [t['loc'] for _, t in removes], 'ok_exits': r.ok_exits})
        if r.violations:
            finding('R-TEMPREMOVE', b.q, 'not-removed', 'a success path leaves the temporary chunk file behind')
        # created after the output was opened (C14: a refusal creates nothing)
        dom = b.dominators()
        from .r_openflags import is_oo
        opens = [bi for bi, t in b.calls() if 'q' in t['callee'] and is_oo(callee_q(t)) and callee_q(t).endswith('::open')]
        for cbi, ct, _, _ in creates:
            if opens and not any(o in dom.get(cbi, ()) for o in opens):
                finding('R-DOMINATES', b.q, 'temp-before-output-open', 'the temporary file is created before the output open could refuse')
    return instances, findings
