"""R-ACCEPT(sibling): the validation of an opened archive refuses only what the command line refuses as well.

Two siblings decide which chunker configurations exist: the argument parser of `bita compress` (what is written) and the
validation of the decoded chunker parameters (what is read).  For every `Config` variant the relations between two recorded
parameters that the reader *refuses* are collected (comparison whose failing edge reaches only error exits, attributed to the
variants whose construction it dominates or whose payload is computed by the function it sits in), the same is done for the
parser, and every refusal of the reader has to follow from the refusals of the parser for that variant (transitive closure
over `<=`: `min > avg` and `max < avg` refused imply `min > max` refused).  A reader that refuses more than the parser writes
turns archives made by this very tool into invalid ones (F18: rollsum with a window above the max chunk size); a parser that
accepts what the reader refuses for a good reason (F19: buzhash with such a window - the chunker panics) shows up the same way.
"""
from ..facts import callee_q
from ..terms import Terms, simplify, show, walk
from .r_steps import exit_outcomes_from

CONFIG = 'bitar::chunker::config::Config'
CLI_NAME = {'"min-chunk-size"': 'min', '"max-chunk-size"': 'max', '"avg-chunk-size"': 'avg', '"rolling-window-size"': 'window'}
FIELD_NAME = {'min_chunk_size': 'min', 'max_chunk_size': 'max', 'window_size': 'window', 'rolling_hash_window_size': 'window'}
SWAP = {'Lt': 'Gt', 'Le': 'Ge', 'Gt': 'Lt', 'Ge': 'Le'}
NEG = {'Lt': 'Ge', 'Le': 'Gt', 'Gt': 'Le', 'Ge': 'Lt'}


def names_of(t):
    out = set()
    for n in walk(t):
        if n[0] == 'const' and n[1] in CLI_NAME:
            out.add(CLI_NAME[n[1]])
        if n[0] == 'field' and isinstance(n[2], str) and n[2] in FIELD_NAME:
            out.add(FIELD_NAME[n[2]])
    return out


def plain(t):
    """the value as it is: no arithmetic on the way (casts and wrappers are fine)"""
    return not any(n[0] == 'binop' for n in walk(t))


def deciding_switch(b, bi, local, hops=10):
    """the switch that branches on the boolean computed into `local` in block bi: in that block, or at the end of the straight
    line of moves / negations that carries it there (the return of an inlined predicate); -> (switch terminator, negated?)"""
    from ..facts import succs
    aliases = {local: False}
    cur = bi
    first = True
    for _ in range(hops):
        blk = b.blocks[cur]
        seen_def = not first
        for st in blk['stmts']:
            if st['k'] != 'assign' or st['pl']['p']:
                continue
            rv = st['rv']
            if rv['k'] in ('use', 'cast') and rv['op']['k'] in ('copy', 'move') and not rv['op']['pl']['p'] and rv['op']['pl']['l'] in aliases:
                aliases[st['pl']['l']] = aliases[rv['op']['pl']['l']]
            elif rv['k'] == 'unop' and rv['op'] == 'Not' and rv['a']['k'] in ('copy', 'move') and not rv['a']['pl']['p'] and rv['a']['pl']['l'] in aliases:
                aliases[st['pl']['l']] = not aliases[rv['a']['pl']['l']]
        t = blk['term']
        if t['k'] == 'switch':
            if t['op']['k'] in ('copy', 'move') and not t['op']['pl']['p'] and t['op']['pl']['l'] in aliases:
                return t, aliases[t['op']['pl']['l']]
            return None
        nx = [x for x in succs(t) if not b.blocks[x].get('cleanup')]
        if len(nx) != 1 or t['k'] in ('call', 'return'):
            return None
        cur = nx[0]
        first = False
    return None


def refusals(facts, T, bodies, unknown):
    """[(body, block, loc, a, rel, b)]: `a rel b` (rel in Gt / Ge) is refused - the edge taken under it reaches error exits only"""
    out = []
    for b in bodies:
        for bi in b.live:
            for st in b.blocks[bi]['stmts']:
                if st['k'] != 'assign' or st['pl']['p'] or st['rv']['k'] != 'binop' or st['rv']['op'] not in NEG:
                    continue
                dsw = deciding_switch(b, bi, st['pl']['l'])
                if dsw is None:
                    continue
                sw, flipped = dsw
                ta = simplify(T.resolve_env(simplify(T.of_operand(b, st['rv']['a']))))
                tb = simplify(T.resolve_env(simplify(T.of_operand(b, st['rv']['b']))))
                na, nb = names_of(ta), names_of(tb)
                if len(na) != 1 or len(nb) != 1 or na == nb or not plain(ta) or not plain(tb):
                    continue
                t_edge, f_edge = sw['otherwise'], dict(zip(sw['vals'], sw['targets'])).get(0)
                if flipped:
                    t_edge, f_edge = f_edge, t_edge
                rel = None
                if t_edge is not None and exit_outcomes_from(b, t_edge) <= {'Err'}:
                    rel = st['rv']['op']
                elif f_edge is not None and exit_outcomes_from(b, f_edge) <= {'Err'}:
                    rel = NEG[st['rv']['op']]
                if rel is None:
                    continue
                a, c = next(iter(na)), next(iter(nb))
                if rel in ('Lt', 'Le'):
                    a, c, rel = c, a, SWAP[rel]
                out.append((b, bi, st['loc'], a, rel, c))
        # the same relation spelled `a.cmp(&b)` and dispatched on the Ordering, or as a range test `(lo..=hi).contains(&x)`
        for bi, t in b.calls():
            if 'q' not in t['callee'] or len(t['args']) != 2 or t['dest']['p']:
                continue
            q = callee_q(t)
            ta = simplify(T.resolve_env(simplify(T.of_operand(b, t['args'][0]))))
            tb = simplify(T.resolve_env(simplify(T.of_operand(b, t['args'][1]))))
            if t['callee']['q'] in ('core::cmp::Ord::cmp', 'core::cmp::PartialOrd::partial_cmp'):
                na, nb = names_of(ta), names_of(tb)
                if len(na) != 1 or len(nb) != 1 or na == nb:
                    continue
                a, c = next(iter(na)), next(iter(nb))
                got = False
                d = t['dest']['l']
                holders = {d}
                for bj in b.live:
                    for st in b.blocks[bj]['stmts']:
                        if st['k'] == 'assign' and not st['pl']['p'] and st['rv']['k'] in ('discr', 'use', 'cast'):
                            src = st['rv'].get('pl') or st['rv'].get('op', {}).get('pl')
                            if src and not src['p'] and src['l'] in holders:
                                holders.add(st['pl']['l'])
                for bj in b.live:
                    sw = b.blocks[bj]['term']
                    if sw['k'] == 'switch' and sw['op']['k'] in ('copy', 'move') and not sw['op']['pl']['p'] and sw['op']['pl']['l'] in holders and sw['op']['pl']['l'] != d:
                        edges = {}
                        for v, tgt in zip(sw['vals'], sw['targets']):
                            name = {0: 'Equal', 1: 'Greater'}.get(v, 'Less' if v not in (0, 1) else None)
                            edges[name] = tgt
                        for name in ('Less', 'Equal', 'Greater'):
                            edges.setdefault(name, sw['otherwise'])
                        bad = {n for n, tgt in edges.items() if exit_outcomes_from(b, tgt) <= {'Err'}}
                        if bad == {'Greater'}:
                            out.append((b, bj, t['loc'], a, 'Gt', c)); got = True
                        elif bad == {'Greater', 'Equal'}:
                            out.append((b, bj, t['loc'], a, 'Ge', c)); got = True
                        elif bad == {'Less'}:
                            out.append((b, bj, t['loc'], c, 'Gt', a)); got = True
                        elif bad == {'Less', 'Equal'}:
                            out.append((b, bj, t['loc'], c, 'Ge', a)); got = True
                if not got:
                    unknown.add(frozenset((a, c)))
            elif q.split('::')[-1] == 'contains' and 'ops::range::Range' in q:
                nx = names_of(tb)
                ends = {}
                for n_ in walk(ta):
                    if n_[0] == 'agg' and 'Range' in str(n_[1]):
                        for fld, val in n_[3].items():
                            nm = names_of(val)
                            if len(nm) == 1:
                                ends[fld] = (next(iter(nm)), str(n_[1]).split('::')[-1])
                    if n_[0] == 'call' and n_[1].endswith('RangeInclusive::new') and len(n_[2]) == 2:
                        for fld, val in (('start', n_[2][0]), ('end', n_[2][1])):
                            nm = names_of(val)
                            if len(nm) == 1:
                                ends[fld] = (next(iter(nm)), 'RangeInclusive')
                if len(nx) != 1 or not ends:
                    continue
                x = next(iter(nx))
                dsw = deciding_switch(b, t['t'], t['dest']['l']) if t.get('t') is not None else None
                if dsw is None:
                    unknown.update(frozenset((x, e[0])) for e in ends.values())
                    continue
                sw, flipped = dsw
                t_edge, f_edge = sw['otherwise'], dict(zip(sw['vals'], sw['targets'])).get(0)
                if flipped:
                    t_edge, f_edge = f_edge, t_edge
                if f_edge is not None and exit_outcomes_from(b, f_edge) <= {'Err'}:
                    # outside the range is refused: lo > x refused, x > hi (or x >= hi for a half-open range) refused
                    if 'start' in ends:
                        out.append((b, t['t'], t['loc'], ends['start'][0], 'Gt', x))
                    if 'end' in ends:
                        out.append((b, t['t'], t['loc'], x, 'Gt' if ends['end'][1] in ('RangeInclusive', 'RangeToInclusive') else 'Ge', ends['end'][0]))
                else:
                    unknown.update(frozenset((x, e[0])) for e in ends.values())
    return out


def constructions(facts, T, bodies):
    """[(body, block, variant, payload term)] for every construction of a Config variant (aggregate or constructor used as a function)"""
    out = []
    for b in bodies:
        for bi in b.live:
            for st in b.blocks[bi]['stmts']:
                if st['k'] == 'assign' and st['rv']['k'] == 'agg' and st['rv'].get('adt') == CONFIG and not st.get('exp'):
                    pay = [simplify(T.resolve_env(simplify(T.of_operand(b, o)))) for o in st['rv']['ops']]
                    out.append((b, bi, st['rv'].get('vname'), pay))
        for bi in b.live:
            for st in b.blocks[bi]['stmts']:
                if st['k'] == 'assign' and st['rv']['k'] in ('use', 'cast') and st['rv']['op'].get('k') == 'const' and st['rv']['op'].get('fn') and \
                        '::{constructor' in st['rv']['op']['fn'] and st['rv']['op']['fn'].startswith(CONFIG + '::'):
                    out.append((b, bi, st['rv']['op']['fn'][len(CONFIG) + 2:].split('::')[0], []))
        for bi, t in b.calls():
            for a in t['args']:
                if a.get('k') == 'const' and a.get('fn') and '::{constructor' in a['fn'] and a['fn'].startswith(CONFIG + '::'):
                    pay = [simplify(T.resolve_env(simplify(T.of_operand(b, x)))) for x in t['args'] if x is not a]
                    out.append((b, bi, a['fn'][len(CONFIG) + 2:].split('::')[0], pay))
    return out


def per_variant(facts, T, bodies):
    unknown = set()
    refs = refusals(facts, T, bodies, unknown)
    cons = constructions(facts, T, bodies)
    doms = {}
    table = {}
    for (cb, cbi, v, pay) in cons:
        table.setdefault(v, [])
    for (rb, rbi, loc, a, rel, c) in refs:
        for (cb, cbi, v, pay) in cons:
            hit = False
            if cb is rb:
                d = doms.setdefault(cb.id, cb.dominators())
                hit = rbi in d.get(cbi, ()) or rbi == cbi
            if not hit:
                # the payload is computed by the function the comparison sits in (its `?` stands between the two)
                hit = any(n[0] == 'call' and n[1] == rb.q for p in pay for n in walk(p))
            if hit and (a, rel, c, loc) not in table[v]:
                table[v].append((a, rel, c, loc))
    return table, refs, cons, unknown


def implied(cli, a, rel, c):
    """does `a rel c` refused follow from the parser's refusals?  (accepted set: x <= y for every refused x > y, x < y for x >= y)"""
    le = {}
    for (x, r, y, _loc) in cli:
        le.setdefault(x, set()).add((y, r == 'Ge'))
    seen, todo = set(), [(a, False)]
    while todo:
        n, strict = todo.pop()
        if (n, strict) in seen:
            continue
        seen.add((n, strict))
        if n == c and (strict or rel == 'Gt') and n != a:
            return True
        for (y, s) in le.get(n, ()):
            todo.append((y, strict or s))
    return False


def run(facts, cg):
    T = Terms(facts)
    instances, findings = [], []

    def finding(where, what, detail):
        key = 'R-READER-WIRING|%s|%s' % (where, what)
        if key not in {x['key'] for x in findings}:
            findings.append({'rule': 'R-ACCEPT', 'key': key, 'function': where, 'what': detail})
    reader = [b for b in facts.bodies.values() if not b.generated and b.id.startswith('bitar::archive::')]
    parser = [b for b in facts.bodies.values() if not b.generated and b.crate == 'bita' and b.id.startswith('bita::cli::')]
    rt, rrefs, rcons, runk = per_variant(facts, T, reader)
    ct, crefs, ccons, cunk = per_variant(facts, T, parser)
    for v in sorted(k for k in rt if k):
        for (a, rel, c, loc) in rt[v]:
            ok = v in ct and (implied(ct[v], a, rel, c) or frozenset((a, c)) in cunk)      # (a test of the pair the rule cannot read: assume it says the same)
            instances.append({'rule': 'R-ACCEPT(sibling)', 'variant': v, 'reader_refuses': '%s %s %s' % (a, '>' if rel == 'Gt' else '>=', c), 'at': loc,
                              'parser_refuses': sorted('%s %s %s' % (x, '>' if r == 'Gt' else '>=', y) for (x, r, y, _l) in ct.get(v, [])), 'follows_from_parser': ok})
            if not ok:
                fn = next((rb.q for (rb, _bi, l_, _a, _r, _c) in rrefs if l_ == loc), '-')
                finding(fn, 'refused-but-written:%s:%s>%s' % (v, a, c), 'the validation at %s refuses a %s archive whose %s is above its %s, the argument parser of compress accepts that '
                        'configuration: archives written by this tool are refused when they are opened (or the parser lets through what the chunker cannot run with)' % (loc, v, a, c))
    # floors: the two siblings were found at all (comparisons that could not be attributed to a variant or interpreted are not
    # reported - the rule speaks only where it can read both sides - but they count as "found")
    n_r = len(rrefs) + len(runk)
    n_c = len(crefs) + len(cunk)
    if n_r < 2 or n_c < 2 or len([v for v in rt if v]) < 3 or len([v for v in ct if v]) < 3:
        finding('-', 'floor-accept-sibling', 'expected the refusals of reader and argument parser and three Config variants in each, found %d / %d, %s / %s '
                '(cannot decide)' % (n_r, n_c, sorted(str(v) for v in rt), sorted(str(v) for v in ct)))
    instances.append({'rule': 'R-ACCEPT(sibling)', 'reader_relations': n_r, 'parser_relations': n_c, 'unread_pairs': sorted(sorted(x) for x in (runk | cunk))})
    return instances, findings
