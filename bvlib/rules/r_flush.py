"""R-FLUSH: a written tokio::fs::File is completed before it is dropped on a success path (a);
its last write is also *reported* (flush / shutdown: seek, set_len, sync_* only park the error of the write in flight) before
success - for the clone output (b) and, since F16 (`create_archive` rewound and copied its temporary file without ever asking
for the error of the last write), for every written file."""
from ..typestate import TypeState, Spec, contains_adt
from ..facts import callee_q

FILE = 'tokio::fs::file::File'
AW = 'tokio::io::util::async_write_ext::AsyncWriteExt::'
AR = 'tokio::io::util::async_read_ext::AsyncReadExt::'
AS = 'tokio::io::util::async_seek_ext::AsyncSeekExt::'
TF = 'tokio::fs::file::File::'
# table read off tokio-1.42.0/src/fs/file.rs
DIRTY = {AW + m for m in ('write', 'write_all', 'write_buf', 'write_all_buf', 'write_vectored',
                            'write_u8', 'write_u16', 'write_u32', 'write_u64')}
REPORT = {AW + 'flush', AW + 'shutdown'}
COMPLETE = {AS + 'seek', AS + 'rewind', AS + 'stream_position', TF + 'set_len', TF + 'sync_all', TF + 'sync_data',
            TF + 'into_std', TF + 'try_clone', TF + 'metadata', TF + 'set_permissions',
            AR + 'read', AR + 'read_exact', AR + 'read_buf', AR + 'read_to_end'}
COPY = 'tokio::io::util::copy::copy'


class FlushSpec(Spec):
    adt = FILE
    states = ('Clean', 'Dirty', 'Completed')
    init_state = 'Clean'

    def event(self, b, t, q, argi):
        if q in DIRTY and argi == 0:
            return 'write'
        if q in REPORT and argi == 0:
            return 'report'
        if q in COMPLETE and argi == 0:
            return 'complete'
        if q == COPY:
            return 'write' if argi == 1 else 'complete'
        if q.endswith(('BufWriter::into_inner', 'BufStream::into_inner')) and argi == 0:
            return 'unbuffer'        # hands back the file and throws away what the buffer still holds
        if q == '<moved-into-foreign>':
            return 'escape'
        return None

    def delta(self, s, ev):
        if ev == 'write':
            return 'Dirty'
        if ev == 'report':
            return 'Clean'
        if ev == 'complete':
            return 'Completed' if s == 'Dirty' else s
        return s

    def checkpoint(self, ev):
        return ev in ('escape', 'unbuffer')


def run(facts, strict_wrappers=('bitar::clone_output::CloneOutput',)):
    """returns (instances, findings)"""
    ts = TypeState(facts, FlushSpec())
    instances, findings = [], []
    for b in facts.bodies.values():
        for root in ts.roots(b):
            r, ex = ts.analyse_owner(b, root)
            wrote = any(True for _ in [1]) and _ever_dirty(r, ex)
            if not wrote:
                continue
            # does the resource pass through a strict wrapper (clone output)?
            strict = _flows_into_wrapper(b, root, strict_wrappers)
            rname = _user_name(b, root)
            inst = {'rule': 'R-FLUSH', 'function': b.q, 'resource': rname, 'strict': strict, 'drops': []}
            for (rs, loc, oc) in r.drops:
                inst['drops'].append({'state': rs, 'at': loc, 'outcome': oc})
                if oc in ('Err',):
                    continue
                bad = rs != 'Clean'
                if bad:
                    findings.append({
                        'rule': 'R-FLUSH' + ('(b)' if strict and rs != 'Dirty' else '(a)'),
                        'key': 'R-FLUSH|%s|%s|%s' % (b.q, rname, 'unreported' if rs == 'Completed' else 'incomplete'),
                        'function': b.q, 'resource': rname, 'state': rs, 'dropped_at': loc, 'outcome': oc,
                        'what': 'tokio file `%s` written but %s before it is dropped on a success path'
                                % (rname, 'its last write is never reported (no flush)' if rs == 'Completed'
                                   else 'not completed (no flush/seek/sync)')})
            for (ev, rs, loc, oc) in r.records:
                if ev == 'unbuffer' and rs != 'Clean' and oc not in ('Err',):
                    findings.append({'rule': 'R-FLUSH(a)', 'key': 'R-FLUSH|%s|%s|buffer-discarded' % (b.q, rname), 'function': b.q,
                                     'what': 'the buffered writer around `%s` is taken apart at %s without having been flushed: into_inner() drops what is '
                                             'still in the buffer (the last small writes never reach the file)' % (rname, loc)})
            instances.append(inst)
    # de-duplicate findings by key
    seen, out = set(), []
    for x in findings:
        if x['key'] not in seen:
            seen.add(x['key'])
            out.append(x)
    return instances, out


def _ever_dirty(r, ex):
    for bi, sts in ex.IN.items():
        for ((holder, rs), oc) in sts:
            if rs != 'Clean':
                return True
    return any(rs != 'Clean' for (rs, _l, _o) in r.drops)


def _flows_into_wrapper(b, root, wrappers):
    # flow-insensitive: is there a call whose by-value argument chain starts at root and whose dest is a wrapper type
    aliases = {root}
    changed = True
    while changed:
        changed = False
        for bi in b.live:
            for st in b.blocks[bi]['stmts']:
                if st['k'] == 'assign' and not st['pl']['p'] and st['rv']['k'] == 'use' and st['rv']['op']['k'] == 'move' \
                        and not st['rv']['op']['pl']['p'] and st['rv']['op']['pl']['l'] in aliases and st['pl']['l'] not in aliases:
                    aliases.add(st['pl']['l']); changed = True
            t = b.blocks[bi]['term']
            if t['k'] == 'call' and not t['dest']['p']:
                for a in t['args']:
                    if a['k'] == 'move' and not a['pl']['p'] and a['pl']['l'] in aliases and t['dest']['l'] not in aliases \
                            and contains_adt(b, t['dest']['l'], FILE):
                        aliases.add(t['dest']['l']); changed = True
    return any(b.lty(l).get('adt') in wrappers for l in aliases)


def _user_name(b, root):
    """first user-visible variable name along the by-value move chain starting at root"""
    cur, seen = root, set()
    while cur not in seen:
        seen.add(cur)
        if b.locals[cur]['name'] and b.locals[cur]['user'] and b.locals[cur]['name'] not in ('val', 'residual', 'result', '__awaitee'):
            return b.locals[cur]['name']
        nxt = None
        for bi in b.live:
            for st in b.blocks[bi]['stmts']:
                if st['k'] == 'assign' and not st['pl']['p'] and st['rv']['k'] == 'use' and st['rv']['op']['k'] == 'move' \
                        and not st['rv']['op']['pl']['p'] and st['rv']['op']['pl']['l'] == cur:
                    nxt = st['pl']['l']
        if nxt is None:
            break
        cur = nxt
    return b.name(root)
