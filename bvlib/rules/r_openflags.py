"""R-OPENFLAGS: interpret every OpenOptions builder chain for all assignments of the bool flags it reads."""
import itertools
from ..facts import succs, callee_q

BUILDER = {'write', 'read', 'create', 'create_new', 'truncate', 'append'}
PFX = ('tokio::fs::open_options::OpenOptions::', 'std::fs::OpenOptions::')


def is_oo(q):
    return q.startswith(PFX)


def field_key(b, pl):
    names = [p.get('n') for p in pl['p'] if p['k'] == 'field']
    if names and all(n is not None for n in names):
        base = b.base_of_place(pl)
        return tuple(str(x[1]) for x in base[1])
    # a parameter of an async fn, captured by its coroutine (`force_create: bool` handed on to a helper): named by the debug info
    if pl['l'] == 1 and b.raw.get('coroutine') and pl['p'] and pl['p'][0]['k'] == 'field' and all(p['k'] in ('field', 'deref') for p in pl['p']):
        for u in b.raw.get('upvar_names') or []:
            upl = u['pl']
            if upl['l'] == 1 and upl['p'] and upl['p'][0]['k'] == 'field' and upl['p'][0].get('i') == pl['p'][0].get('i') and len([p for p in pl['p'] if p['k'] == 'field']) == 1:
                return ('param', str(u['name']))
    return None


def path_term(b, op, depth=0):
    if op['k'] not in ('copy', 'move'):
        return '?'
    base = b.base_of(op)
    # look through value-preserving conversions of a path (`&PathBuf -> &Path`, as_ref, as_path, clone)
    ds = b.defs().get(base[0], [])
    if not base[1] and len(ds) == 1 and ds[0][0] == 'call' and 'q' in ds[0][1]['callee'] and ds[0][1]['args'] and depth < 6 and \
            callee_q(ds[0][1]).split('::')[-1] in ('deref', 'as_ref', 'as_path', 'borrow', 'clone', 'to_path_buf', 'to_owned', 'as_os_str', 'into', 'from'):
        return path_term(b, ds[0][1]['args'][0], depth + 1)
    root = b.name(base[0]) if (b.locals[base[0]].get('name') and b.locals[base[0]].get('user')) or base[0] <= b.arg_count else 'tmp'
    if base[0] == 1 and b.raw['coroutine'] and base[1]:
        # captured parameter of an async fn: name it by the debug info
        idx = base[1][0][1]
        for u in b.raw['upvar_names']:
            pl = u['pl']
            if pl['l'] == 1 and pl['p'] and pl['p'][0]['k'] == 'field' and pl['p'][0]['i'] == idx and len(pl['p']) == 1:
                return u['name'] + ''.join('.' + str(x[1]) for x in base[1][1:])
    return root + ''.join('.' + str(x[1]) for x in base[1])


def sym(b, l, depth=0):
    """boolean expression of a local over option fields, following single definitions and two-armed short-circuit diamonds:
    ('const', v) | ('field', key) | ('not', e) | ('bin', op, e1, e2) | ('ite', c, e_true, e_false) ; None if not such a thing"""
    if depth > 12:
        return None
    ds = [d for d in b.defs().get(l, []) if d[0] == 'assign' and not d[1]['pl']['p']]
    if len(ds) != len(b.defs().get(l, [])) or not ds:
        return None
    if len(ds) == 1:
        return sym_rv(b, ds[0][1]['rv'], depth)
    if len(ds) == 2:
        (_, s1, b1, _), (_, s2, b2, _) = ds
        dom = b.dominators()
        common = [x for x in dom.get(b1, ()) if x in dom.get(b2, ()) and b.blocks[x]['term']['k'] == 'switch']
        # the innermost common dominating switch decides which definition is reached
        common.sort(key=lambda x: len(dom.get(x, ())), reverse=True)
        for sw_b in common:
            t = b.blocks[sw_b]['term']
            if t['op']['k'] not in ('copy', 'move') or t['op']['pl']['p'] or len(t['vals']) != 1 or t['vals'][0] != 0:
                continue
            f_t, t_t = t['targets'][0], t['otherwise']
            r1t, r1f = _reach(b, t_t, b1, b2), _reach(b, f_t, b1, b2)
            r2t, r2f = _reach(b, t_t, b2, b1), _reach(b, f_t, b2, b1)
            if r1t and r2f and not r1f and not r2t:
                on_true, on_false = s1, s2
            elif r2t and r1f and not r2f and not r1t:
                on_true, on_false = s2, s1
            else:
                continue
            c = sym(b, t['op']['pl']['l'], depth + 1)
            et = sym_rv(b, on_true['rv'], depth + 1)
            ef = sym_rv(b, on_false['rv'], depth + 1)
            if c is None or et is None or ef is None:
                return None
            return ('ite', c, et, ef)
    return None


def _builder_aliases(b, d):
    """locals through which one OpenOptions value is reached: the result of new(), what it is moved into, and the `&mut Self`
    every setter hands back"""
    al = {d}
    grew = True
    while grew:
        grew = False
        for bi in b.live:
            for st in b.blocks[bi]['stmts']:
                if st['k'] == 'assign' and not st['pl']['p'] and st['pl']['l'] not in al and st['rv']['k'] == 'use' and st['rv']['op']['k'] in ('copy', 'move') \
                        and not st['rv']['op']['pl']['p'] and st['rv']['op']['pl']['l'] in al:
                    al.add(st['pl']['l']); grew = True
            t = b.blocks[bi]['term']
            if t['k'] == 'call' and 'q' in t['callee'] and is_oo(callee_q(t)) and callee_q(t).split('::')[-1] in BUILDER and t['args'] and not t['dest']['p'] \
                    and t['dest']['l'] not in al and t['args'][0]['k'] in ('copy', 'move'):
                base = b.base_of(t['args'][0])
                if base and base[0] in al:
                    al.add(t['dest']['l']); grew = True
            # a conversion between the std and the tokio builder (`tokio::fs::OpenOptions::from(std_options)`) carries the flags along
            if t['k'] == 'call' and 'q' in t['callee'] and t['callee']['q'] in ('core::convert::From::from', 'core::convert::Into::into') and t['args'] and \
                    not t['dest']['p'] and t['dest']['l'] not in al and t['args'][0]['k'] in ('copy', 'move') and \
                    'OpenOptions' in (b.lty(t['dest']['l']).get('adt') or ''):
                base = b.base_of(t['args'][0])
                if base and base[0] in al:
                    al.add(t['dest']['l']); grew = True
    return al


def _reach(b, start, goal, avoid, limit=60):
    seen, w = set(), [start]
    while w:
        x = w.pop()
        if x in seen or b.blocks[x].get('cleanup'):
            continue
        seen.add(x)
        if x == goal:
            return True
        if x == avoid:
            continue
        w.extend(succs(b.blocks[x]['term']))
        if len(seen) > limit:
            return False
    return False


def sym_rv(b, rv, depth):
    if rv['k'] == 'use':
        o = rv['op']
        if o['k'] == 'const' and 'int' in o:
            return ('const', bool(o['int']))
        if o['k'] in ('copy', 'move'):
            if o['pl']['p']:
                k = field_key(b, o['pl'])
                return ('field', k) if k else None
            return sym(b, o['pl']['l'], depth + 1)
        return None
    if rv['k'] == 'unop' and rv['op'] == 'Not':
        e = sym_op(b, rv['a'], depth)
        return ('not', e) if e is not None else None
    if rv['k'] == 'binop' and rv['op'] in ('BitAnd', 'BitOr', 'BitXor', 'Eq', 'Ne'):
        e1, e2 = sym_op(b, rv['a'], depth), sym_op(b, rv['b'], depth)
        if e1 is None or e2 is None:
            return None
        return ('bin', rv['op'], e1, e2)
    return None


def sym_op(b, o, depth):
    if o['k'] == 'const' and 'int' in o:
        return ('const', bool(o['int']))
    if o['k'] in ('copy', 'move'):
        if o['pl']['p']:
            k = field_key(b, o['pl'])
            return ('field', k) if k else None
        return sym(b, o['pl']['l'], depth + 1)
    return None


def sym_fields(e):
    if e is None:
        return set()
    if e[0] == 'field':
        return {e[1]}
    out = set()
    for x in e[1:]:
        if isinstance(x, tuple):
            out |= sym_fields(x)
    return out


def sym_eval(e, env_in):
    k = e[0]
    if k == 'const':
        return e[1]
    if k == 'field':
        return env_in.get(e[1], '?')
    if k == 'not':
        v = sym_eval(e[1], env_in)
        return '?' if v == '?' else (not v)
    if k == 'bin':
        a, c = sym_eval(e[2], env_in), sym_eval(e[3], env_in)
        if a == '?' or c == '?':
            return '?'
        return {'BitAnd': a and c, 'BitOr': a or c, 'BitXor': a != c, 'Eq': a == c, 'Ne': a != c}[e[1]]
    if k == 'ite':
        c = sym_eval(e[1], env_in)
        if c == '?':
            return '?'
        return sym_eval(e[2] if c else e[3], env_in)
    return '?'


def resolved_paths(facts, cg, b, op, depth=0):
    """path terms of an open() path operand with parameters replaced by what the callers pass (a scratch file opened in a
    helper is named by the option it comes from, whatever the helper calls its parameter)"""
    from ..typestate import coroutine_of
    direct = path_term(b, op)
    if op['k'] not in ('copy', 'move') or depth > 3:
        return {direct}
    base = b.base_of(op)
    ds = b.defs().get(base[0], [])
    if not base[1] and len(ds) == 1 and ds[0][0] == 'call' and 'q' in ds[0][1]['callee'] and ds[0][1]['args'] and \
            callee_q(ds[0][1]).split('::')[-1] in ('deref', 'as_ref', 'as_path', 'borrow', 'clone', 'to_path_buf', 'to_owned', 'as_os_str', 'into', 'from'):
        return resolved_paths(facts, cg, b, ds[0][1]['args'][0], depth)
    shell, pidx = None, None
    if b.raw['coroutine'] and base[0] == 1 and base[1]:
        shell = facts.original.get(b.raw.get('parent') or '')
        if shell is not None:
            cb, pm = coroutine_of(facts, shell)
            inv = {v: k for k, v in (pm or {}).items()}
            pidx = inv.get(base[1][0][1])
            rest = base[1][1:]
    elif 1 <= base[0] <= b.arg_count and b.raw['kind'] != 'Closure':
        shell, pidx, rest = b, base[0], base[1]
    if shell is None or pidx is None:
        return {direct}
    out = set()
    for (cbody, cbi, ct) in cg.calls_to(shell.q):
        if pidx - 1 < len(ct['args']):
            for r in resolved_paths(facts, cg, cbody, ct['args'][pidx - 1], depth + 1):
                out.add(r + ''.join('.' + str(x[1]) for x in rest))
    return out or {direct}


def chains(b):
    """yield dict(at, inputs, table:[(assignment dict, effective flag set)], path)"""
    news = [(bi, t) for bi, t in b.calls() if 'q' in t['callee'] and is_oo(callee_q(t)) and callee_q(t).endswith('::new')]
    for nbi, nt in news:
        seen, w, region = set(), [nbi], []
        while w:
            x = w.pop()
            if x in seen:
                continue
            seen.add(x)
            region.append(x)
            t = b.blocks[x]['term']
            if t['k'] == 'call' and 'q' in t['callee'] and is_oo(callee_q(t)) and callee_q(t).endswith('::open'):
                continue
            for s in succs(t):
                if not b.blocks[s].get('cleanup'):
                    w.append(s)
            if len(seen) > 80:
                break
        aliases = _builder_aliases(b, nt['dest']['l']) if not nt['dest']['p'] else set()

        def mine(t_):
            if not aliases or not t_['args'] or t_['args'][0]['k'] not in ('copy', 'move'):
                return True
            base_ = b.base_of(t_['args'][0])
            return bool(base_) and base_[0] in aliases
        reached_opens = set()
        named_builder = any(b.locals[a_].get('user') and b.locals[a_].get('name') for a_ in aliases)
        inputs = set()
        for x in region:
            for st in b.blocks[x]['stmts']:
                if st['k'] == 'assign' and st['rv']['k'] == 'use' and st['rv']['op']['k'] == 'copy' and st['rv']['op']['pl']['p'] \
                        and b.lty(st['pl']['l']).get('k') == 'bool':
                    k = field_key(b, st['rv']['op']['pl'])
                    if k:
                        inputs.add(k)
        for x in region:
            for st in b.blocks[x]['stmts']:
                if st['k'] == 'assign' and st['rv']['k'] == 'agg' and st['rv'].get('ak') == 'tuple':
                    for o in st['rv']['ops']:
                        if o['k'] == 'copy' and o['pl']['p'] and b.ty(o['pl']['p'][-1].get('ty', -1)).get('k') == 'bool' if o['k'] == 'copy' and o['pl']['p'] and 'ty' in o['pl']['p'][-1] else False:
                            k = field_key(b, o['pl'])
                            if k:
                                inputs.add(k)
        symcache = {}
        for x in region:
            t = b.blocks[x]['term']
            cand = None
            if t['k'] == 'call' and 'q' in t['callee'] and is_oo(callee_q(t)) and callee_q(t).split('::')[-1] in BUILDER:
                cand = t['args'][1]
            elif t['k'] == 'switch':
                cand = t['op']
            if cand and cand['k'] in ('copy', 'move') and not cand['pl']['p'] and b.lty(cand['pl']['l']).get('k') == 'bool':
                e = sym(b, cand['pl']['l'])
                symcache[cand['pl']['l']] = e
                inputs |= sym_fields(e)
        inputs = sorted(inputs)
        table = []
        path = None
        path_op = None
        complete = True
        for vals in itertools.product([False, True], repeat=len(inputs)):
            env_in = dict(zip(inputs, vals))
            flags, benv, bi, steps, done, stuck = {}, {}, nbi, 0, False, False
            while steps < 300 and not done:
                steps += 1
                blk = b.blocks[bi]
                for st in blk['stmts']:
                    if st['k'] != 'assign' or st['pl']['p']:
                        continue
                    dst, rv = st['pl']['l'], st['rv']
                    benv.pop(dst, None)
                    if rv['k'] == 'agg' and rv.get('ak') == 'tuple':
                        # `match (a, b) { .. }`: the scrutinee is a tuple of flags, dispatched field by field
                        for i_, o in enumerate(rv['ops']):
                            benv.pop((dst, i_), None)
                            if o['k'] == 'const' and 'int' in o:
                                benv[(dst, i_)] = bool(o['int'])
                            elif o['k'] in ('copy', 'move'):
                                if o['pl']['p']:
                                    k = field_key(b, o['pl'])
                                    if k in env_in:
                                        benv[(dst, i_)] = env_in[k]
                                elif o['pl']['l'] in benv:
                                    benv[(dst, i_)] = benv[o['pl']['l']]
                    if rv['k'] == 'use':
                        o = rv['op']
                        if o['k'] == 'const' and 'int' in o and b.lty(dst).get('k') == 'bool':
                            benv[dst] = bool(o['int'])
                        elif o['k'] in ('copy', 'move'):
                            if o['pl']['p']:
                                k = field_key(b, o['pl'])
                                if k in env_in:
                                    benv[dst] = env_in[k]
                            elif o['pl']['l'] in benv:
                                benv[dst] = benv[o['pl']['l']]
                    elif rv['k'] == 'unop' and rv['op'] == 'Not' and rv['a']['k'] in ('copy', 'move') and rv['a']['pl']['l'] in benv:
                        benv[dst] = not benv[rv['a']['pl']['l']]
                    elif rv['k'] == 'binop' and rv['op'] in ('BitAnd', 'BitOr', 'BitXor', 'Eq', 'Ne'):
                        xs = []
                        for o in (rv['a'], rv['b']):
                            if o['k'] == 'const' and 'int' in o:
                                xs.append(bool(o['int']))
                            elif o['k'] in ('copy', 'move') and o['pl']['l'] in benv and not o['pl']['p']:
                                xs.append(benv[o['pl']['l']])
                        if len(xs) == 2:
                            benv[dst] = {'BitAnd': xs[0] and xs[1], 'BitOr': xs[0] or xs[1], 'BitXor': xs[0] != xs[1],
                                         'Eq': xs[0] == xs[1], 'Ne': xs[0] != xs[1]}[rv['op']]
                t = blk['term']
                if t['k'] == 'call' and 'q' in t['callee'] and is_oo(callee_q(t)) and mine(t):
                    m = callee_q(t).split('::')[-1]
                    if m == 'open':
                        reached_opens.add(bi)
                    if m in BUILDER:
                        a = t['args'][1]
                        v = bool(a['int']) if a['k'] == 'const' and 'int' in a else benv.get(a['pl']['l'], '?') if a['k'] != 'const' else '?'
                        if v == '?' and a['k'] != 'const' and symcache.get(a['pl']['l']) is not None:
                            v = sym_eval(symcache[a['pl']['l']], env_in)
                        flags[m] = v
                        if v == '?':
                            complete = False
                    if m == 'open':
                        path = path_term(b, t['args'][1])
                        path_op = t['args'][1]
                        done = True
                        break
                if t['k'] == 'switch':
                    l = t['op']['pl']['l'] if t['op']['k'] in ('copy', 'move') else None
                    if l is not None and t['op']['pl']['p']:
                        pr = t['op']['pl']['p']
                        l = (l, pr[0].get('i')) if len(pr) == 1 and pr[0]['k'] == 'field' else None
                    if l not in benv and symcache.get(l) is not None and sym_eval(symcache[l], env_in) != '?':
                        benv[l] = sym_eval(symcache[l], env_in)
                    if l not in benv:
                        if named_builder:
                            stuck = True        # the opens further on are covered by the re-use pass below (may-set flags)
                        else:
                            complete = False
                        break
                    v = int(benv[l])
                    tgt = dict(zip(t['vals'], t['targets'])).get(v, t['otherwise'])
                    bi = tgt
                else:
                    ns = succs(t)
                    if not ns:
                        break
                    bi = ns[0]
            if not done and not stuck:
                complete = False
            if done:
                table.append((env_in, {k for k, v in flags.items() if v is True}))
        opens_in_reach = any(b.blocks[x]['term']['k'] == 'call' and 'q' in b.blocks[x]['term']['callee'] and is_oo(callee_q(b.blocks[x]['term'])) and
                             callee_q(b.blocks[x]['term']).endswith('::open') for x in region)
        yield {'function': b.q, 'at': nt['loc'], 'inputs': ['.'.join(i) for i in inputs], 'table': table, 'path': path,
               'complete': complete, 'path_op': path_op, 'opens_in_reach': opens_in_reach}
        # a builder kept in a variable and used again: every later open() sees whatever any earlier branch has set on it
        if aliases:
            setters = [(sbi, st_) for sbi, st_ in b.calls() if 'q' in st_['callee'] and is_oo(callee_q(st_)) and callee_q(st_).split('::')[-1] in BUILDER
                       and st_['args'] and b.base_of(st_['args'][0]) and b.base_of(st_['args'][0])[0] in aliases]
            for obi, ot in b.calls():
                if 'q' in ot['callee'] and is_oo(callee_q(ot)) and callee_q(ot).endswith('::open') and obi not in reached_opens and ot['args'] and \
                        b.base_of(ot['args'][0]) and b.base_of(ot['args'][0])[0] in aliases:
                    eff = set()
                    for sbi, st_ in setters:
                        a = st_['args'][1]
                        if not (a['k'] == 'const' and 'int' in a and not a['int']) and _reach(b, sbi, obi, None, limit=4000):
                            eff.add(callee_q(st_).split('::')[-1])
                    yield {'function': b.q, 'at': ot['loc'], 'inputs': [], 'table': [({}, eff)], 'path': path_term(b, ot['args'][1]), 'complete': True,
                           'path_op': ot['args'][1], 'reused_builder': True}


def run(facts, cg=None):
    instances, findings = [], []

    def finding(b_q, what, detail):
        key = 'R-OPENFLAGS|%s|%s' % (b_q, what)
        if key not in {x['key'] for x in findings}:
            findings.append({'rule': 'R-OPENFLAGS', 'key': key, 'function': b_q, 'what': detail})
    compress_region = set()
    if cg is not None:
        compress_region = cg.reachable([x.id for x in facts.bodies.values() if x.q == 'bita::compress_cmd::compress_cmd'])
    for b in facts.bodies.values():
        if b.crate != 'bita':
            continue
        for ch in chains(b):
            if ch.get('path_op') is not None and cg is not None:
                rp = sorted(resolved_paths(facts, cg, b, ch['path_op']))
                ch['path'] = '|'.join(rp)
            rows = []
            for env, eff in ch['table']:
                rows.append({'flags': {('.'.join(k)): v for k, v in env.items()}, 'effective': sorted(eff)})
            inst = {'rule': 'R-OPENFLAGS', 'obligations': len(rows), 'function': b.q, 'at': ch['at'], 'path': ch['path'], 'inputs': ch['inputs'], 'rows': rows}
            instances.append(inst)
            if not ch['complete']:
                finding(b.q, 'undecidable:' + str(ch['path']), 'open flags at %s depend on something other than constant/option bools' % ch['at'])
                continue
            if not rows and ch.get('opens_in_reach'):
                finding(b.q, 'undecidable:' + str(ch['path']), 'the builder created at %s reaches an open() the evaluation could not follow it to (cannot decide)' % ch['at'])
                continue
            writable = any(r['effective'] and ({'write', 'append', 'create', 'create_new', 'truncate'} & set(r['effective'])) for r in rows)
            if not writable:
                continue
            is_temp = ch['inputs'] == [] and (ch['path'] or '').split('.')[-1] != 'output'
            if b.id in compress_region:
                # everything compress writes is produced from scratch and later read / shipped as a whole: a file opened for
                # writing that can keep older, longer content (no truncate, no create_new) ends with stale bytes
                for r in rows:
                    eff = set(r['effective'])
                    if eff & {'write', 'append'} and not (eff & {'truncate', 'create_new'}):
                        finding(b.q, 'stale-content:' + str(ch['path']), 'compress opens %s for writing with flags %s: older, longer content of '
                                'that file survives behind what is written now' % (ch['path'], sorted(eff)))
            for r in rows:
                eff = set(r['effective'])
                fl = r['flags']
                force = any(v for k, v in fl.items() if k.endswith('force_create'))
                seed = any(v for k, v in fl.items() if k.endswith('seed_output'))
                if is_temp and b.id not in compress_region:
                    continue
                # (compress: its scratch file is treated as its output is - a file that is already there, be it the input itself
                # under the derived name, a symbolic link or the scratch file of a concurrent run, is replaced only when asked to: F17)
                if 'append' in eff:
                    finding(b.q, 'append:' + str(ch['path']), 'output %s opened in append mode' % ch['path'])
                if not force and not seed and 'create_new' not in eff:
                    finding(b.q, 'no-create_new:' + str(ch['path']), 'without --force-create/--seed-output an existing %s would be opened for writing (flags %s)' % (ch['path'], sorted(eff)))
                if seed and not (eff & {'create', 'create_new'}) and any(k.endswith('seed_output') for k in fl):
                    finding(b.q, 'seed-output-no-create:' + str(ch['path']), 'with --seed-output %s is opened without create (flags %s): when a first run died before '
                            'the output existed, the documented re-run with --seed-output can never complete' % (ch['path'], sorted(eff)))
                if 'truncate' in eff and not force:
                    finding(b.q, 'truncate:' + str(ch['path']), 'existing %s truncated without --force-create' % ch['path'])
                if 'truncate' in eff and any(k.endswith('seed_output') for k in fl):
                    finding(b.q, 'truncate-clone:' + str(ch['path']), 'clone output %s opened with truncate' % ch['path'])
    return instances, findings


# ------------------------------------------------------------------------------------------------------------------------
# R-CLIFLAGS: the flags that decide whether an existing output may be touched come from their command line flag and from
# nothing else.  `seed_output = get_flag("seed-output") || <output is among the seeds>` lifts the exists-refusal without -f.
CLI_FLAGS = {'force_create': 'force-create', 'seed_output': 'seed-output', 'verify_output': 'verify-output'}


def run_cliflags(facts, cg):
    from ..terms import Terms, simplify, show, walk
    T = Terms(facts)
    instances, findings = [], []
    n = 0
    for b in facts.bodies.values():
        if b.crate != 'bita' or b.generated:
            continue
        for bi in b.live:
            for st in b.blocks[bi]['stmts']:
                if not (st['k'] == 'assign' and st['rv']['k'] == 'agg' and (st['rv'].get('adt') or '').endswith('::Options')
                        and st['rv']['adt'].startswith(('bita::clone_cmd::', 'bita::compress_cmd::'))):
                    continue
                for name, o in zip(st['rv']['fields'], st['rv']['ops']):
                    if name not in CLI_FLAGS:
                        continue
                    n += 1
                    term = simplify(T.of_operand(b, o))
                    flags = []
                    other = []
                    for nd in walk(term):
                        if nd[0] == 'call' and nd[1].endswith('ArgMatches::get_flag'):
                            flags += [a[1] for a in nd[2] if isinstance(a, tuple) and a[0] == 'const' and isinstance(a[1], str)]
                    top = term
                    ok = isinstance(top, tuple) and top[0] == 'call' and top[1].endswith('ArgMatches::get_flag') and any(CLI_FLAGS[name] in str(f_) for f_ in flags)
                    instances.append({'rule': 'R-CLIFLAGS', 'function': b.q, 'option': st['rv']['adt'].split('::')[1] + '.' + name, 'at': st['loc'], 'term': show(term)[:60], 'ok': ok})
                    if not ok:
                        findings.append({'rule': 'R-CLIFLAGS', 'key': 'R-CLIFLAGS|%s|%s.%s' % (b.q, st['rv']['adt'].split('::')[1], name), 'function': b.q,
                                         'what': 'option %s is not simply the command line flag --%s (%s): the refusal to touch an existing output can be lifted '
                                                 'without the user asking for it' % (name, CLI_FLAGS[name], show(term)[:100])})
    # the pinned header checksum: what the user gave for --verify-header reaches the clone options or the command line is refused.
    # A conversion that can turn a value that does not parse into "no pin" (ok(), and_then, filter, unwrap_or) lifts the check
    # silently for exactly the inputs that are malformed.
    LOSSY = ('ok', 'and_then', 'filter', 'unwrap_or', 'unwrap_or_default', 'unwrap_or_else', 'or', 'or_else', 'take', 'xor')
    n_pin = 0
    for b in facts.bodies.values():
        if b.crate != 'bita' or b.generated:
            continue
        for bi in b.live:
            for st in b.blocks[bi]['stmts']:
                if not (st['k'] == 'assign' and st['rv']['k'] == 'agg' and st['rv'].get('adt') == 'bita::clone_cmd::Options'):
                    continue
                for name, o in zip(st['rv']['fields'], st['rv']['ops']):
                    if name != 'header_checksum':
                        continue
                    n_pin += 1
                    term = simplify(T.of_operand(b, o))
                    names = [nd[1] for nd in walk(term) if nd[0] == 'call']
                    for nd in walk(term):
                        if nd[0] == 'closure' and nd[1] in facts.bodies:
                            names += [callee_q(ct) for _, ct in facts.bodies[nd[1]].calls() if 'q' in ct['callee']]
                    from_arg = any(nd[0] == 'call' and nd[1].endswith('ArgMatches::get_one') and any(isinstance(a, tuple) and a[0] == 'const' and 'verify-header' in str(a[1]) for a in nd[2])
                                   for nd in walk(term))
                    lossy = sorted({x.split('::')[-1] for x in names if x.split('::')[-1] in LOSSY and x.startswith(('core::option::', 'core::result::'))})
                    instances.append({'rule': 'R-CLIFLAGS(pin)', 'function': b.q, 'at': st['loc'], 'from_verify_header': from_arg, 'lossy_conversions': lossy})
                    if not from_arg or lossy:
                        findings.append({'rule': 'R-CLIFLAGS', 'key': 'R-CLIFLAGS|%s|pin-can-be-lost' % b.q, 'function': b.q,
                                         'what': 'the pinned header checksum handed to the clone is %s: a --verify-header value can end up as "no pin" and the '
                                                 'check it asks for is skipped without a word' % ('not the parsed --verify-header argument' if not from_arg else
                                                                                                   'passed through ' + ', '.join(lossy))})
    # ... and stay what the command line said: no function of the tool stores to these flags after the options were built
    # (a "resume in place after a failure" that sets seed_output lifts the refusal to touch an existing output)
    for b in facts.bodies.values():
        if b.crate != 'bita' or b.generated:
            continue
        for bi in b.live:
            for st in b.blocks[bi]['stmts']:
                if st['k'] == 'assign' and st['pl']['p'] and st['pl']['p'][-1]['k'] == 'field' and st['pl']['p'][-1].get('n') in CLI_FLAGS and \
                        (st['pl']['p'][-1].get('adt') or '').startswith(('bita::clone_cmd::Options', 'bita::compress_cmd::Options')):
                    findings.append({'rule': 'R-CLIFLAGS', 'key': 'R-CLIFLAGS|%s|flag-overwritten:%s' % (b.q, st['pl']['p'][-1]['n']), 'function': b.q,
                                     'what': 'option %s is stored to at %s after the command line was parsed: what decides whether an existing output may be touched is no '
                                             'longer what the user asked for' % (st['pl']['p'][-1]['n'], st['loc'])})
    # the remote reader is set up as the command line says, on every path: the request carries --http-header, the reader
    # --http-retry-count and --http-retry-delay (whether or not a timeout was given)
    from ..terms import var_alternatives
    from ..paths import Explorer, Rule
    n_remote = 0
    for b in facts.bodies.values():
        if b.crate != 'bita' or b.generated:
            continue
        for bi, t in b.calls():
            if 'q' not in t['callee'] or not callee_q(t).endswith('HttpReader::from_request') or not t['args']:
                continue
            n_remote += 1
            req = simplify(T.of_operand(b, t['args'][0]))
            alts = [req] + var_alternatives(T, b, req)
            def carries_headers(x):
                return any(nd[0] == 'call' and nd[1].endswith('RequestBuilder::headers') for nd in walk(x))
            def self_ref(x):
                return any(nd[0] == 'var' for nd in walk(x))
            bad = [x for x in alts[1:] or alts if not carries_headers(x) and not self_ref(x)]
            if len(alts) == 1 and not carries_headers(req):
                bad = [req]
            if bad:
                findings.append({'rule': 'R-CLIFLAGS', 'key': 'R-CLIFLAGS|%s|remote:headers-lost' % b.q.split('::{closure')[0], 'function': b.q,
                                 'what': 'on some path the request handed to the HTTP reader at %s is not the one that carries the --http-header values (%s): a server that '
                                         'wants them refuses every request' % (t['loc'], show(bad[0])[:80])})
            # retries / retry_delay on every path from here to the first other use of the reader
            missing = []

            class Wired(Rule):
                init = (False, False)

                def on_term(self_, b_, bi_, t_, stt):
                    if t_['k'] != 'call' or 'q' not in t_['callee']:
                        return stt
                    q_ = callee_q(t_)
                    if q_.endswith('HttpReader::retries'):
                        return (True, stt[1])
                    if q_.endswith('HttpReader::retry_delay'):
                        return (stt[0], True)
                    if any(a['k'] == 'move' and not a['pl']['p'] and b_.lty(a['pl']['l']).get('adt') == 'bitar::archive_reader::http_reader::HttpReader' for a in t_['args']):
                        if not all(stt):
                            missing.append(t_['loc'])
                        return []
                    return stt

                def on_exit(self_, b_, bi_, stt, outcome):
                    if b_.lty(0).get('adt') == 'bitar::archive_reader::http_reader::HttpReader' and not all(stt):
                        missing.append(b_.blocks[bi_]['term']['loc'])
            if t.get('t') is not None:
                Explorer(b, Wired(), start=t['t']).run()
            instances.append({'rule': 'R-CLIFLAGS(remote)', 'function': b.q, 'at': t['loc'], 'request_alternatives': len(alts), 'paths_without_retry_settings': len(missing)})
            if missing:
                findings.append({'rule': 'R-CLIFLAGS', 'key': 'R-CLIFLAGS|%s|remote:retry-not-wired' % b.q.split('::{closure')[0], 'function': b.q,
                                 'what': 'the HTTP reader built at %s reaches its user at %s without .retries(..) and .retry_delay(..) on some path: --http-retry-count '
                                         'has no effect there' % (t['loc'], missing[0])})
    if n_remote < 2:
        findings.append({'rule': 'R-CLIFLAGS', 'key': 'R-CLIFLAGS|-|floor-remote', 'function': '-', 'what': 'expected the HTTP readers of clone and info to be built in the tool, found %d (cannot decide)' % n_remote})
    if n_pin < 1:
        findings.append({'rule': 'R-CLIFLAGS', 'key': 'R-CLIFLAGS|-|floor-pin', 'function': '-', 'what': 'the header_checksum option of clone was not found in the argument parser (cannot decide)'})
    if n < 3:
        findings.append({'rule': 'R-CLIFLAGS', 'key': 'R-CLIFLAGS|-|floor', 'function': '-', 'what': 'the option structs of clone / compress were not found in the argument parser (cannot decide)'})
    return instances, findings
