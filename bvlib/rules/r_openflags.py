"""R-OPENFLAGS: interpret every OpenOptions builder chain for all assignments of the bool flags it reads."""
import itertools
from ..facts import succs, callee_q

BUILDER = {'write', 'read', 'create', 'create_new', 'truncate', 'append'}
PFX = ('tokio::fs::open_options::OpenOptions::', 'std::fs::OpenOptions::')


def is_oo(q):
    return q.startswith(PFX)


def field_key(b, pl):
    names = [p.get('n') for p in pl['p'] if p['k'] == 'field']
    if names and all(n is not None for n in names):
        base = b.base_of_place(pl)
        return tuple(str(x[1]) for x in base[1])
    return None


def path_term(b, op):
    if op['k'] not in ('copy', 'move'):
        return '?'
    base = b.base_of(op)
    root = b.name(base[0])
    if base[0] == 1 and b.raw['coroutine'] and base[1]:
        # captured parameter of an async fn: name it by the debug info
        idx = base[1][0][1]
        for u in b.raw['upvar_names']:
            pl = u['pl']
            if pl['l'] == 1 and pl['p'] and pl['p'][0]['k'] == 'field' and pl['p'][0]['i'] == idx and len(pl['p']) == 1:
                return u['name'] + ''.join('.' + str(x[1]) for x in base[1][1:])
    return root + ''.join('.' + str(x[1]) for x in base[1])


def chains(b):
    """yield dict(at, inputs, table:[(assignment dict, effective flag set)], path)"""
    news = [(bi, t) for bi, t in b.calls() if 'q' in t['callee'] and is_oo(callee_q(t)) and callee_q(t).endswith('::new')]
    for nbi, nt in news:
        seen, w, region = set(), [nbi], []
        while w:
            x = w.pop()
            if x in seen:
                continue
            seen.add(x)
            region.append(x)
            t = b.blocks[x]['term']
            if t['k'] == 'call' and 'q' in t['callee'] and is_oo(callee_q(t)) and callee_q(t).endswith('::open'):
                continue
            for s in succs(t):
                if not b.blocks[s].get('cleanup'):
                    w.append(s)
            if len(seen) > 80:
                break
        inputs = set()
        for x in region:
            for st in b.blocks[x]['stmts']:
                if st['k'] == 'assign' and st['rv']['k'] == 'use' and st['rv']['op']['k'] == 'copy' and st['rv']['op']['pl']['p'] \
                        and b.lty(st['pl']['l']).get('k') == 'bool':
                    k = field_key(b, st['rv']['op']['pl'])
                    if k:
                        inputs.add(k)
        inputs = sorted(inputs)
        table = []
        path = None
        complete = True
        for vals in itertools.product([False, True], repeat=len(inputs)):
            env_in = dict(zip(inputs, vals))
            flags, benv, bi, steps, done = {}, {}, nbi, 0, False
            while steps < 300 and not done:
                steps += 1
                blk = b.blocks[bi]
                for st in blk['stmts']:
                    if st['k'] != 'assign' or st['pl']['p']:
                        continue
                    dst, rv = st['pl']['l'], st['rv']
                    benv.pop(dst, None)
                    if rv['k'] == 'use':
                        o = rv['op']
                        if o['k'] == 'const' and 'int' in o and b.lty(dst).get('k') == 'bool':
                            benv[dst] = bool(o['int'])
                        elif o['k'] in ('copy', 'move'):
                            if o['pl']['p']:
                                k = field_key(b, o['pl'])
                                if k in env_in:
                                    benv[dst] = env_in[k]
                            elif o['pl']['l'] in benv:
                                benv[dst] = benv[o['pl']['l']]
                    elif rv['k'] == 'unop' and rv['op'] == 'Not' and rv['a']['k'] in ('copy', 'move') and rv['a']['pl']['l'] in benv:
                        benv[dst] = not benv[rv['a']['pl']['l']]
                    elif rv['k'] == 'binop' and rv['op'] in ('BitAnd', 'BitOr', 'BitXor', 'Eq', 'Ne'):
                        xs = []
                        for o in (rv['a'], rv['b']):
                            if o['k'] == 'const' and 'int' in o:
                                xs.append(bool(o['int']))
                            elif o['k'] in ('copy', 'move') and o['pl']['l'] in benv and not o['pl']['p']:
                                xs.append(benv[o['pl']['l']])
                        if len(xs) == 2:
                            benv[dst] = {'BitAnd': xs[0] and xs[1], 'BitOr': xs[0] or xs[1], 'BitXor': xs[0] != xs[1],
                                         'Eq': xs[0] == xs[1], 'Ne': xs[0] != xs[1]}[rv['op']]
                t = blk['term']
                if t['k'] == 'call' and 'q' in t['callee'] and is_oo(callee_q(t)):
                    m = callee_q(t).split('::')[-1]
                    if m in BUILDER:
                        a = t['args'][1]
                        v = bool(a['int']) if a['k'] == 'const' and 'int' in a else benv.get(a['pl']['l'], '?') if a['k'] != 'const' else '?'
                        flags[m] = v
                        if v == '?':
                            complete = False
                    if m == 'open':
                        path = path_term(b, t['args'][1])
                        done = True
                        break
                if t['k'] == 'switch':
                    l = t['op']['pl']['l'] if t['op']['k'] in ('copy', 'move') else None
                    if l not in benv:
                        complete = False
                        break
                    v = int(benv[l])
                    tgt = dict(zip(t['vals'], t['targets'])).get(v, t['otherwise'])
                    bi = tgt
                else:
                    ns = succs(t)
                    if not ns:
                        break
                    bi = ns[0]
            if not done:
                complete = False
            table.append((env_in, {k for k, v in flags.items() if v is True}))
        yield {'function': b.q, 'at': nt['loc'], 'inputs': ['.'.join(i) for i in inputs], 'table': table, 'path': path,
               'complete': complete}


def run(facts, cg=None):
    instances, findings = [], []

    def finding(b_q, what, detail):
        key = 'R-OPENFLAGS|%s|%s' % (b_q, what)
        if key not in {x['key'] for x in findings}:
            findings.append({'rule': 'R-OPENFLAGS', 'key': key, 'function': b_q, 'what': detail})
    for b in facts.bodies.values():
        if b.crate != 'bita':
            continue
        for ch in chains(b):
            rows = []
            for env, eff in ch['table']:
                rows.append({'flags': {('.'.join(k)): v for k, v in env.items()}, 'effective': sorted(eff)})
            inst = {'rule': 'R-OPENFLAGS', 'obligations': len(rows), 'function': b.q, 'at': ch['at'], 'path': ch['path'], 'inputs': ch['inputs'], 'rows': rows}
            instances.append(inst)
            if not ch['complete']:
                finding(b.q, 'undecidable:' + str(ch['path']), 'open flags at %s depend on something other than constant/option bools' % ch['at'])
                continue
            writable = any(r['effective'] and ({'write', 'append', 'create', 'create_new', 'truncate'} & set(r['effective'])) for r in rows)
            if not writable:
                continue
            is_temp = ch['inputs'] == [] and 'temp' in (ch['path'] or '')
            for r in rows:
                eff = set(r['effective'])
                fl = r['flags']
                force = any(v for k, v in fl.items() if k.endswith('force_create'))
                seed = any(v for k, v in fl.items() if k.endswith('seed_output'))
                if is_temp:
                    continue
                if 'append' in eff:
                    finding(b.q, 'append:' + str(ch['path']), 'output %s opened in append mode' % ch['path'])
                if not force and not seed and 'create_new' not in eff:
                    finding(b.q, 'no-create_new:' + str(ch['path']), 'without --force-create/--seed-output an existing %s would be opened for writing (flags %s)' % (ch['path'], sorted(eff)))
                if 'truncate' in eff and not force:
                    finding(b.q, 'truncate:' + str(ch['path']), 'existing %s truncated without --force-create' % ch['path'])
                if 'truncate' in eff and any(k.endswith('seed_output') for k in fl):
                    finding(b.q, 'truncate-clone:' + str(ch['path']), 'clone output %s opened with truncate' % ch['path'])
    return instances, findings
