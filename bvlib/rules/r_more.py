def run(facts, cg):
    from . import r_openflags, r_storage, r_pairing, r_err, r_tables, r_wire, r_readers, r_untrusted, r_dictwiring, r_trunc, r_misc, r_chunker, r_readerwiring, r_accept, r_cliprogress
    out = {}
    out['r_openflags'] = r_openflags.run(facts, cg)
    out['r_storage'] = r_storage.run(facts, cg)
    out['r_pairing'] = r_pairing.run(facts, cg)
    out['r_err'] = r_err.run(facts, cg)
    out['r_tables'] = r_tables.run(facts, cg)
    out['r_wire'] = r_wire.run(facts, cg)
    out['r_readers'] = r_readers.run(facts, cg)
    out['r_untrusted'] = r_untrusted.run(facts, cg)
    out['r_dictwiring'] = r_dictwiring.run(facts, cg)
    out['r_trunc'] = r_trunc.run(facts, cg)
    out['r_misc'] = r_misc.run(facts, cg)
    out['r_chunker'] = r_chunker.run(facts, cg)
    out['r_readerwiring'] = r_readerwiring.run(facts, cg)
    out['r_accept'] = r_accept.run(facts, cg)
    out['r_cliprogress'] = r_cliprogress.run(facts, cg)
    out['r_cliflags'] = r_openflags.run_cliflags(facts, cg)
    out['r_err_fatal'] = r_err.run_fatal(facts, cg)
    return out
