def _guard(name, fn, facts, cg):
    """a rule module that throws on an unforeseen shape of the code must not take the whole check down with a traceback (no verdict
    at all) - and must not pass either: it is reported as a finding of its own, 'cannot decide', under every property it serves"""
    try:
        return fn(facts, cg)
    except Exception as e:       # noqa
        import traceback
        tb = traceback.format_exc().strip().splitlines()
        where = next((l.strip() for l in reversed(tb) if l.strip().startswith('File ')), '')
        return [], [{'rule': 'R-ENGINE', 'key': 'R-ENGINE|%s|crash:%s' % (name, type(e).__name__), 'function': '-',
                     'what': 'the rule module %s could not analyse this tree (%s: %s at %s): cannot decide' % (name, type(e).__name__, str(e)[:120], where[:160])}]


def run(facts, cg):
    from . import r_openflags, r_storage, r_pairing, r_err, r_tables, r_wire, r_readers, r_untrusted, r_dictwiring, r_trunc, r_misc, r_chunker, r_readerwiring, r_accept, r_cliprogress
    out = {}
    out['r_openflags'] = _guard('r_openflags', r_openflags.run, facts, cg)
    out['r_storage'] = _guard('r_storage', r_storage.run, facts, cg)
    out['r_pairing'] = _guard('r_pairing', r_pairing.run, facts, cg)
    out['r_err'] = _guard('r_err', r_err.run, facts, cg)
    out['r_tables'] = _guard('r_tables', r_tables.run, facts, cg)
    out['r_wire'] = _guard('r_wire', r_wire.run, facts, cg)
    out['r_readers'] = _guard('r_readers', r_readers.run, facts, cg)
    out['r_untrusted'] = _guard('r_untrusted', r_untrusted.run, facts, cg)
    out['r_dictwiring'] = _guard('r_dictwiring', r_dictwiring.run, facts, cg)
    out['r_trunc'] = _guard('r_trunc', r_trunc.run, facts, cg)
    out['r_misc'] = _guard('r_misc', r_misc.run, facts, cg)
    out['r_chunker'] = _guard('r_chunker', r_chunker.run, facts, cg)
    out['r_readerwiring'] = _guard('r_readerwiring', r_readerwiring.run, facts, cg)
    out['r_accept'] = _guard('r_accept', r_accept.run, facts, cg)
    out['r_cliprogress'] = _guard('r_cliprogress', r_cliprogress.run, facts, cg)
    out['r_cliflags'] = _guard('r_cliflags', r_openflags.run_cliflags, facts, cg)
    out['r_err_fatal'] = _guard('r_err_fatal', r_err.run_fatal, facts, cg)
    return out
