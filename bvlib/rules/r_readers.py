"""Reader state-machine rules: R-RESUME, R-RETRY, R-SEEK-EACH, R-RUNS, early-end => error."""
import collections
from ..facts import callee_q, succs
from ..terms import Terms, simplify, has_call, has_field, show, walk, calls_in
from ..paths import Explorer, Rule
from .r_steps import OK_OUTCOMES

RANGE_HEADER = 'reqwest::async_impl::request::RequestBuilder::header'
SLEEP = 'tokio::time::sleep::sleep'
IOSTATE = 'bitar::archive_reader::io_reader::IoChunkReaderState'


def stores(b, field):
    """[(block, stmt index, stmt)] assignments whose destination place ends in named field `field`"""
    out = []
    for bi in b.live:
        for si, st in enumerate(b.blocks[bi]['stmts']):
            if st['k'] == 'assign' and st['pl']['p']:
                fs = [p for p in st['pl']['p'] if p['k'] == 'field']
                if fs and fs[-1].get('n') == field and st['pl']['p'][-1]['k'] == 'field':
                    out.append((bi, si, st))
    return out


def self_fields(term):
    """names of the fields read from parameter 0 (self) inside a term; for a field kept in a nested private struct
    (`self.range.offset`) the innermost name: it is the value that is read, whatever it is wrapped in"""
    chains = set()
    for n in walk(term):
        if n[0] != 'field':
            continue
        path, cur = [n[2]], n[1]
        while isinstance(cur, tuple) and cur[0] in ('field', 'deref', 'ref'):
            if cur[0] == 'field':
                path.append(cur[2])
            cur = cur[1]
        if isinstance(cur, tuple) and cur[0] == 'param' and cur[2] == 0:
            chains.add(tuple(reversed(path)))
    out = set()
    for c in chains:
        if not any(o != c and o[:len(c)] == c for o in chains):
            out.add(c[-1])
    return out


def run(facts, cg):
    T = Terms(facts)
    instances, findings = [], []

    def finding(rule, where, what, detail):
        key = '%s|%s|%s' % (rule, where, what)
        if key not in {x['key'] for x in findings}:
            findings.append({'rule': rule, 'key': key, 'function': where, 'what': detail})

    # ---------------------------------------------------------------- R-RESUME
    range_sites = [(b, bi, t) for (b, bi, t) in cg.calls_to(RANGE_HEADER) if b.crate == 'bitar']
    range_terms = []
    for b, bi, t in range_sites:
        val = simplify(T.resolve_env(simplify(T.of_operand(b, t['args'][2]))))
        fields = self_fields(val)
        params = sorted({n[3] or n[2] for n in walk(val) if n[0] == 'param' and n[2] != 0})
        # normalised shape of the range: list of display arguments
        disp = [n for n in walk(val) if n[0] == 'call' and n[1].endswith('Argument::new_display')]
        shape = [_shape(d[2][0]) for d in disp]
        range_terms.append(shape)
        instances.append({'rule': 'R-RESUME(range-term)', 'function': b.q, 'at': t['loc'], 'self_fields': sorted(fields), 'params': params, 'shape': shape})
        if b.q.endswith('poll_read_fail'):
            if len(fields) < 2:
                finding('R-RESUME', b.q, 'range-not-from-progress-fields', 'the re-issued Range header is not computed from the request\'s progress fields (%s)' % sorted(fields))
                continue
            dom = b.dominators()
            # blocks that hand a body fragment to the caller: _0 = Poll::Ready(Some(Ok(item)))
            rets = []
            for rbi in b.live:
                for st in b.blocks[rbi]['stmts']:
                    if st['k'] == 'assign' and not st['pl']['p'] and st['pl']['l'] == 0 and st['rv']['k'] == 'agg' and st['rv'].get('vname') == 'Ready':
                        term = simplify(T.of_operand(b, st['rv']['ops'][0]))
                        # Ready(Some(Ok(fragment))): the shape at the top, not an `Ok` somewhere inside an error's provenance
                        inner = list(term[3].values())[0] if isinstance(term, tuple) and term[0] == 'agg' and term[2] == 'Some' and term[3] else None
                        if isinstance(inner, tuple) and inner[0] == 'agg' and inner[2] == 'Ok':
                            rets.append(rbi)
            if not rets:
                finding('R-RESUME', b.q, 'no-delivery-site', 'could not find where body fragments are delivered (cannot decide)')
            for f_ in sorted(fields):
                sts = stores(b, f_)
                good = []
                for sbi, si, st in sts:
                    term = simplify(T.of_rvalue(b, st['rv'], 0))
                    # by the fragment's length as it is: `min(len, what is left)` after the other field was already updated advances by
                    # less than was handed out, the retry then asks again for bytes the caller already has
                    if (has_call(term, 'Bytes::len') or has_call(term, '::len')) and not any(n_[0] == 'call' and n_[1].split('::')[-1] in ('min', 'max', 'clamp') for n_ in walk(term)):
                        good.append(sbi)
                for rbi in rets:
                    if not any(g in dom.get(rbi, ()) for g in good):
                        finding('R-RESUME', b.q, 'no-advance:' + f_, 'a delivered body fragment does not update `%s` by its length: a retry would re-request bytes already handed out' % f_)
            instances.append({'rule': 'R-RESUME', 'function': b.q, 'progress_fields': sorted(fields), 'delivery_sites': len(rets)})
    # the header is `bytes=<first>-<last>` with an inclusive last byte: <last> = (<first> + <size>) - 1 over the same <first>
    for (b, bi, t), shape in zip(range_sites, range_terms):
        ok = len(shape) == 2 and isinstance(shape[1], tuple) and len(shape[1]) == 3 and shape[1][0] == 'Sub' and shape[1][2] == 1 and \
            isinstance(shape[1][1], tuple) and len(shape[1][1]) == 3 and shape[1][1][0] == 'Add' and shape[0] in (shape[1][1][1], shape[1][1][2]) and \
            shape[1][1][1] != shape[1][1][2] and not any(isinstance(x, tuple) for x in (shape[1][1][1], shape[1][1][2]) if x != shape[0])
        if not ok:
            finding('R-RESUME', b.q, 'range-bounds', 'the Range header at %s is not `bytes=first-(first+size-1)` (inclusive end): %s' % (t['loc'], shape))
    if len(range_sites) < 2:
        finding('R-RESUME', '-', 'floor', 'expected 2 Range header constructions, found %d (cannot decide)' % len(range_sites))
    elif len({tuple(map(str, x)) for x in range_terms}) != 1:
        finding('R-RESUME', '-', 'sibling-range-terms', 'the two Range header constructions compute different bounds: %s' % range_terms)

    # the request builder a range request keeps is the caller's request as it is: the Range header is put on a fresh clone for
    # every attempt (reqwest's header() appends - a builder that already carries a Range header sends two, and servers honour
    # the first), and a request is set up once: nothing but its constructor and the retry re-arm puts it back to "not sent yet"
    RANGE_REQ = 'bitar::archive_reader::http_range_request::HttpRangeRequest'
    rb_fields = facts.fields_by_role(RANGE_REQ).get('reqwest::async_impl::request::RequestBuilder') or []
    n_rb = 0
    for b in facts.bodies.values():
        if b.generated or b.crate != 'bitar':
            continue
        for bi in b.live:
            for st in b.blocks[bi]['stmts']:
                if st['k'] != 'assign':
                    continue
                if st['rv']['k'] == 'agg' and st['rv'].get('adt') == RANGE_REQ:
                    for name, o in zip(st['rv']['fields'], st['rv']['ops']):
                        if name in rb_fields:
                            n_rb += 1
                            term = simplify(T.of_operand(b, o))
                            if has_call(term, 'RequestBuilder::header') or has_call(term, 'RequestBuilder::headers'):
                                finding('R-RESUME', b.q, 'builder-not-pristine', 'the request builder kept by a range request already carries a header set at %s: the Range header '
                                        'of every later attempt is appended to it, a resumed request carries two' % st['loc'])
                elif st['pl']['p'] and st['pl']['p'][-1]['k'] == 'field' and st['pl']['p'][-1].get('n') in rb_fields and st['pl']['p'][-1].get('adt') == RANGE_REQ:
                    finding('R-RESUME', b.q, 'builder-overwritten', 'the request builder kept by a range request is replaced at %s: headers accumulate from attempt to attempt' % st['loc'])
    if n_rb < 1:
        finding('R-RESUME', '-', 'floor-builder', 'the construction of HttpRangeRequest was not found (cannot decide)')
    # who may put a request back to its first state: bodies that also re-arm it after a delay (the retry path)
    for b in facts.bodies.values():
        if b.generated or b.crate != 'bitar':
            continue
        rearms = any('q' in t['callee'] and (callee_q(t) == SLEEP or (t['callee']['q'] == 'core::future::future::Future::poll' and t['args'] and t['args'][0]['k'] in ('copy', 'move')
                                                                   and 'Sleep' in str(b.lty(t['args'][0]['pl']['l']).get('s')))) for _, t in b.calls())
        for bi in b.live:
            for st in b.blocks[bi]['stmts']:
                if st['k'] == 'assign' and st['pl']['p'] and st['pl']['p'][-1]['k'] == 'field' and st['pl']['p'][-1].get('adt') == RANGE_REQ:
                    term = simplify(T.of_rvalue(b, st['rv'], 0))
                    if isinstance(term, tuple) and term[0] == 'agg' and term[1].endswith('RequestState') and not term[3] and rearms:
                        # in the state machine itself: back to "send the request" only when the delay of a retry has run out (the Ready
                        # edge of the timer's poll) - a body that merely ended early and is "continued" from there re-sends without a
                        # delay and without spending the retry budget: a server that keeps ending early is asked for ever
                        sleeps = [cbi for cbi, ct in b.calls() if 'q' in ct['callee'] and ct['callee']['q'] == 'core::future::future::Future::poll' and ct['args'] and
                                  ct['args'][0]['k'] in ('copy', 'move') and 'Sleep' in str(b.lty(ct['args'][0]['pl']['l']).get('s'))]
                        domr = b.dominators()
                        if sleeps and not any(sp == bi or sp in domr.get(bi, ()) for sp in sleeps):
                            finding('R-RETRY', b.q, 'resent-without-budget', 'the request is put back to "not sent yet" at %s outside the delay arm of the retry path: it is sent '
                                    'again at once, as often as the peer makes it happen, without the retry budget being spent' % st['loc'])
                    if isinstance(term, tuple) and term[0] == 'agg' and term[1].endswith('RequestState') and not term[3] and not rearms:
                        finding('R-RESUME', b.q, 'reinitialised', 'a range request is put back to its first state at %s outside its constructor and its retry path: what belongs to '
                                'one request (the retry budget it has left, the bytes it has delivered) is carried into the next' % st['loc'])

    # ---------------------------------------------------------------- R-WHO(http-send): who talks to the server
    # Every request that goes out is a range request of the HTTP reader (header region + runs of wanted chunks: that is what C06 /
    # C07 count).  A request sent from anywhere else - a "resolve the redirect first" HEAD that falls back to a plain GET in the
    # command line tool - fetches bytes nobody accounted for (the whole archive, in that fallback).
    n_send = 0
    for b in facts.bodies.values():
        if b.generated or b.crate not in ('bita', 'bitar'):
            continue
        for bi, t in b.calls():
            if 'q' not in t['callee']:
                continue
            q = callee_q(t)
            if q in ('reqwest::async_impl::request::RequestBuilder::send', 'reqwest::async_impl::client::Client::execute', 'reqwest::get',
                     'reqwest::blocking::request::RequestBuilder::send', 'reqwest::blocking::client::Client::execute', 'reqwest::blocking::get'):
                if b.id.startswith('bitar::archive_reader::http_range_request::'):
                    n_send += 1
                else:
                    finding('R-WHO(archive-read)', b.q, 'request-sent-outside-reader:' + q.split('::')[-1], 'a request is sent at %s, outside the range requests of the HTTP '
                            'reader: what it fetches is neither the header region nor a run of wanted chunks' % t['loc'])
    instances.append({'rule': 'R-WHO(archive-read)', 'what': 'requests are sent by the range request only', 'send_sites': n_send})
    if n_send < 2:
        finding('R-WHO(archive-read)', '-', 'floor-send', 'expected the two send() sites of the range request, found %d (cannot decide)' % n_send)

    # ---------------------------------------------------------------- R-EXACTLEN: read_at hands back no more than it was asked for
    # try_init slices the header it gets by offsets computed from `size`; a reader that returns a longer buffer shifts
    # nothing there, but every consumer that trusts `len() == size` (chunk splitting, header layout) is off.
    FILL = ('read_buf', 'read', 'read_to_end', 'read_exact')
    n_ra = 0
    for b in facts.bodies.values():
        par = facts.original.get(b.raw.get('parent') or '')
        if not (b.raw.get('coroutine') and par is not None and par.q.endswith(' as bitar::archive_reader::ArchiveReader>::read_at')):
            continue
        n_ra += 1
        rets = []
        to_ret = {0}            # locals whose value is moved into the return place (async_trait: `let __ret = {..}; __ret`)
        grew = True
        while grew:
            grew = False
            for bi in b.live:
                for st in b.blocks[bi]['stmts']:
                    if st['k'] == 'assign' and not st['pl']['p'] and st['pl']['l'] in to_ret and st['rv']['k'] == 'use' \
                            and st['rv']['op']['k'] in ('copy', 'move') and st['rv']['op']['pl']['l'] not in to_ret and \
                            all(p_['k'] in ('downcast', 'field') for p_ in st['rv']['op']['pl']['p']):
                        # (also the payload of a wrapper: the result of an awaited helper arrives as `(ready as Ready).0`)
                        to_ret.add(st['rv']['op']['pl']['l'])
                        grew = True
                    if st['k'] == 'assign' and not st['pl']['p'] and st['pl']['l'] in to_ret and st['rv']['k'] == 'agg' and \
                            st['rv'].get('vname') in ('Ready', 'Continue', 'Break') and len(st['rv']['ops']) == 1 and st['rv']['ops'][0]['k'] in ('copy', 'move') \
                            and not st['rv']['ops'][0]['pl']['p'] and st['rv']['ops'][0]['pl']['l'] not in to_ret:
                        to_ret.add(st['rv']['ops'][0]['pl']['l'])
                        grew = True
                t_ = b.blocks[bi]['term']
                if t_['k'] == 'call' and 'q' in t_['callee'] and not t_['dest']['p'] and t_['dest']['l'] in to_ret and t_['args'] and \
                        t_['callee']['q'].split('::')[-1] in ('from_output', 'into', 'from') and t_['args'][0]['k'] in ('copy', 'move') \
                        and not t_['args'][0]['pl']['p'] and t_['args'][0]['pl']['l'] not in to_ret:
                    to_ret.add(t_['args'][0]['pl']['l'])
                    grew = True
        for bi in b.live:
            for st in b.blocks[bi]['stmts']:
                if st['k'] == 'assign' and not st['pl']['p'] and st['pl']['l'] in to_ret and st['rv']['k'] == 'agg' and st['rv'].get('vname') == 'Ok':
                    rets.append((bi, st))
        if not rets:
            finding('R-EXACTLEN', b.q, 'anchor', 'could not find what read_at returns on success (cannot decide)')
        for bi, st in rets:
            term = simplify(T.of_operand(b, st['rv']['ops'][0]))
            cut = any(n[0] == 'call' and n[1].split('::')[-1] in ('split_to', 'truncate', 'slice', 'take') for n in walk(term))
            root = b.base_of(st['rv']['ops'][0])
            # follow freeze()/into() back to the buffer local
            rl = _buffer_root(b, st['rv']['ops'][0])
            fills = []
            for cbi, ct in b.calls():
                if 'q' in ct['callee'] and callee_q(ct).split('::')[-1] in FILL and len(ct['args']) > 1:
                    if _buffer_root(b, ct['args'][1]) == rl:
                        rterm = simplify(T.of_operand(b, ct['args'][0]))
                        bounded = has_call(rterm, '::take') or callee_q(ct).endswith('read_exact')
                        fills.append((ct['loc'], bounded))
            # ... or the length of what is returned was compared with the requested size on the way (a single response body)
            compared = False
            dom = b.dominators().get(bi, ())
            for cbi in b.live:
                sw = b.blocks[cbi]['term']
                if sw['k'] == 'switch' and cbi in dom:
                    cterm = simplify(T.of_operand(b, sw['op']))
                    if any(n[0] == 'binop' and n[1] in ('Lt', 'Le', 'Gt', 'Ge', 'Eq', 'Ne') and has_call(n, '::len') for n in walk(cterm)) or \
                            (has_call(cterm, '::cmp') and has_call(cterm, '::len')):
                        compared = True
            # what is handed back is the front of the buffer: `split_off(n)` *returns the tail* [n, len) and keeps the front - returning its
            # result hands out what the server sent beyond the range instead of the range
            if any(n[0] == 'call' and n[1].split('::')[-1] == 'split_off' for n in walk(term)):
                finding('R-EXACTLEN', b.q, 'returns-the-tail', 'read_at returns the result of split_off(..) at %s: that is the surplus behind the requested size, not the '
                        'requested bytes' % st['loc'])
            inst = {'rule': 'R-EXACTLEN', 'function': b.q, 'returned': show(term)[:80], 'cut_to_size': cut, 'fills': fills, 'length_compared': compared}
            instances.append(inst)
            if not cut and not (fills and all(x[1] for x in fills)) and not (not fills and compared):
                finding('R-EXACTLEN', b.q, 'unbounded-fill', 'read_at returns a buffer that is filled by reads which are not limited to the requested size '
                        '(no take(size) / read_exact, no split_to/truncate before returning): it can hand back more bytes than asked for')
    if n_ra < 2:
        finding('R-EXACTLEN', '-', 'floor', 'expected the local and the HTTP read_at implementations, found %d (cannot decide)' % n_ra)

    # ---------------------------------------------------------------- R-RETRY
    for (b, bi, t) in cg.calls_to(SLEEP):
        if b.crate != 'bitar':
            continue
        dom = b.dominators().get(bi, set())
        ok = None
        # candidate stores (a field decremented) and candidate tests (that field against zero / the None of checked_sub) are looked
        # up first, dominance - path-sensitive: the store may sit in the `Some` arm of a helper that reports "there was one left" -
        # is asked for those blocks only
        cand_stores, cand_tests = [], []
        for dbi in b.live:
            for st in b.blocks[dbi]['stmts']:
                if st['k'] == 'assign' and st['pl']['p'] and st['pl']['p'][-1]['k'] == 'field':
                    term = simplify(T.resolve_env(simplify(T.of_rvalue(b, st['rv'], 0))))
                    f_ = st['pl']['p'][-1].get('n')
                    dec = (term[0] == 'binop' and term[1] == 'Sub' and term[3] == ('const', 1)) or \
                          (term[0] == 'field' and isinstance(term[1], tuple) and term[1][0] == 'binop' and term[1][1] == 'Sub' and term[1][3] == ('const', 1)) or \
                          has_call(term, '::saturating_sub') or has_call(term, '::checked_sub')
                    if dec and has_field(term, f_):
                        cand_stores.append((dbi, f_))
            ct = b.blocks[dbi]['term']
            if ct['k'] == 'switch':
                cterm = simplify(T.resolve_env(simplify(T.of_operand(b, ct['op']))))
                for f_ in {x[1] for x in cand_stores} | set(facts.fields_by_role('bitar::archive_reader::http_range_request::HttpRangeRequest').get('u32') or []):
                    if has_field(cterm, f_) and (any(n == ('const', 0) for n in walk(cterm)) or
                                                 (has_call(cterm, '::checked_sub') and any(n[0] == 'discr' for n in walk(cterm)))):
                        cand_tests.append((dbi, f_))
        for sbi, f_ in cand_stores:
            if sbi in dom and any(cbi in dom and f2 == f_ for cbi, f2 in cand_tests):
                ok = f_
        instances.append({'rule': 'R-RETRY', 'function': b.q, 'rearm_at': t['loc'], 'budget_field': ok})
        # ... and the budget only goes down while the request lives: in the bodies that wait and re-send, the budget field is stored to
        # only by its own decrement.  "The connection is back, give it the full budget again" lets a server that answers and then
        # cuts the body keep the client retrying for ever.
        if ok:
          polling = [g for g in facts.bodies.values() if not g.generated and g.id.startswith(b.id.rsplit('::', 1)[0].split('::{')[0].rsplit('::', 1)[0] + '::') and
                     any('q' in ct_['callee'] and (callee_q(ct_).split('::')[-1].startswith('poll') or callee_q(ct_) == SLEEP) for _, ct_ in g.calls())]
          for g in ([b] + [x for x in polling if x is not b]):
            for dbi in g.live:
                for st in g.blocks[dbi]['stmts']:
                    if st['k'] == 'assign' and st['pl']['p'] and st['pl']['p'][-1]['k'] == 'field' and st['pl']['p'][-1].get('n') == ok:
                        term = simplify(T.resolve_env(simplify(T.of_rvalue(g, st['rv'], 0))))
                        if not has_field(term, ok) or not (any(n_[0] == 'binop' and n_[1] in ('Sub', 'SubWithOverflow') for n_ in walk(term)) or
                                                           has_call(term, '::saturating_sub') or has_call(term, '::checked_sub') or has_call(term, '::wrapping_sub')):
                            finding('R-RETRY', g.q, 'budget-restored', 'the retry budget (`%s`) is stored to at %s with something else than its own decrement (%s): a peer that '
                                    'lets every attempt get a little way keeps the client retrying without end' % (ok, st['loc'], show(term)[:60]))
        if not ok:
            finding('R-RETRY', b.q, 'unbounded', 'the request is re-armed at %s without consuming a retry budget that is compared with zero' % t['loc'])
    if len([1 for (b, bi, t) in cg.calls_to(SLEEP) if b.crate == 'bitar']) < 2:
        finding('R-RETRY', '-', 'floor', 'expected 2 retry re-arm sites (cannot decide)')

    # every range request the HTTP reader builds is armed with the reader's retry budget and delay before it is used: a request
    # that is built through a new helper and loses its `.retry(..)` on the way still works on a fault-free connection
    n_arm = 0
    for b in facts.bodies.values():
        if not b.id.startswith('bitar::archive_reader::http_reader::') or b.generated:
            continue
        for bi, t in b.calls():
            if 'q' not in t['callee'] or not callee_q(t).endswith('HttpRangeRequest::new') or t['dest']['p']:
                continue
            n_arm += 1
            # consumers of the value: follow moves / `?` / Option wrapping to the first call that is not a plain conveyor
            armed = None
            seen, work = set(), [t['dest']['l']]
            while work and armed is None:
                l = work.pop()
                if l in seen:
                    continue
                seen.add(l)
                for ubi in b.live:
                    for st in b.blocks[ubi]['stmts']:
                        if st['k'] == 'assign' and any(o.get('k') in ('copy', 'move') and o['pl']['l'] == l for o in _rv_ops(st['rv'])):
                            if st['pl']['p']:
                                armed = armed if armed is not None else False      # stored / used without having been armed
                            else:
                                work.append(st['pl']['l'])
                    ut = b.blocks[ubi]['term']
                    if ut['k'] == 'call' and any(a.get('k') in ('copy', 'move') and a['pl']['l'] == l for a in ut['args']):
                        uq = callee_q(ut) if 'q' in ut['callee'] else ''
                        if uq.endswith('HttpRangeRequest::retry'):
                            args = [simplify(T.resolve_env(simplify(T.of_operand(b, a)))) for a in ut['args'][1:]]
                            armed = all(any(n[0] == 'field' for n in walk(a)) for a in args) and len(args) == 2
                        elif uq.split('::')[-1] in ('branch', 'from_residual', 'into', 'from', 'ok_or', 'ok_or_else', 'map_err') and not ut['dest']['p']:
                            work.append(ut['dest']['l'])
                        elif armed is None:
                            armed = False
            instances.append({'rule': 'R-RETRY(armed)', 'function': b.q, 'request_built_at': t['loc'], 'armed_with_reader_budget': bool(armed)})
            if not armed:
                finding('R-RETRY', b.q, 'not-armed', 'the range request built at %s is used without `.retry(<reader\'s retry count>, <reader\'s retry delay>)`: a transfer '
                        'fault on it fails the clone although retries were asked for' % t['loc'])
    if n_arm < 2:
        finding('R-RETRY', '-', 'floor-armed', 'expected the two constructions of a range request in the HTTP reader, found %d (cannot decide)' % n_arm)

    # ---------------------------------------------------------------- R-SEEK-EACH (local reader)
    # The chunk reader of module io_reader is a state machine over an enum-typed field.  Its states are told apart by what
    # their arm of the dispatch does (starts a seek / waits for it / reads), not by their names.
    n_se = 0
    for b in facts.bodies.values():
        if not b.id.startswith('bitar::archive_reader::io_reader::') or b.generated:
            continue
        def call_blocks(suffix):
            return [(bi, t) for bi, t in b.calls() if 'q' in t['callee'] and t['callee']['q'].endswith(suffix)]
        seeks = call_blocks('AsyncSeek::start_seek')
        completes = call_blocks('AsyncSeek::poll_complete')
        reads = call_blocks('AsyncRead::poll_read')
        if not (seeks and completes and reads):
            continue
        n_se += 1
        dom = b.dominators()
        # the state field: a field of a crate-local enum type that is stored in this body and dispatched on
        st_stores = []          # (block, stmt, variant index)
        for bi in b.live:
            for st in b.blocks[bi]['stmts']:
                if st['k'] == 'assign' and st['pl']['p'] and st['pl']['p'][-1]['k'] == 'field':
                    term = simplify(T.of_rvalue(b, st['rv'], 0))
                    if isinstance(term, tuple) and term[0] == 'agg' and term[1].startswith('bitar::archive_reader::io_reader::') and term[1] in facts.adts:
                        names = [v_['n'] for v_ in facts.adts[term[1]]['variants']]
                        if term[2] in names and len(names) > 1:
                            st_stores.append((bi, st, names.index(term[2]), st['pl']['p'][-1].get('n')))
        fields = {x[3] for x in st_stores}
        inst = {'rule': 'R-SEEK-EACH', 'function': b.q, 'start_seek': len(seeks), 'poll_complete': len(completes), 'poll_read': len(reads),
                'state_field': sorted(map(str, fields)), 'state_stores': len(st_stores)}
        instances.append(inst)
        if len(fields) != 1 or len(st_stores) < 3:
            finding('R-SEEK-EACH', b.q, 'anchor', 'seek / complete / read state machine not recognised (cannot decide)')
            continue
        sf = fields.pop()
        # role of each variant = the call its dispatch arm leads to first
        role_of = {}
        arm_of = collections.defaultdict(set)        # role -> blocks at which the dispatch arm of a state with that role starts
        for sbi in b.live:
            sw = b.blocks[sbi]['term']
            if sw['k'] != 'switch':
                continue
            cterm = simplify(T.of_operand(b, sw['op']))
            if not (any(n[0] == 'discr' for n in walk(cterm)) and has_field(cterm, sf)):
                continue
            for v, tgt in zip(sw['vals'], sw['targets']):
                hit = [role for role, sites in (('seek', seeks), ('wait', completes), ('read', reads))
                       if any(tgt == cbi or tgt in dom.get(cbi, ()) for cbi, _ in sites)]
                if len(hit) == 1:
                    role_of.setdefault(v, hit[0])
                    arm_of[hit[0]].add(tgt)
        inst['variant_roles'] = {str(k): v for k, v in role_of.items()}
        by_role = {r: [x for x in st_stores if role_of.get(x[2]) == r] for r in ('seek', 'wait', 'read')}
        if not all(by_role.values()):
            finding('R-SEEK-EACH', b.q, 'anchor', 'seek / complete / read state machine not recognised (cannot decide)')
            continue
        # (a store made inside the arm of the same state keeps the state: `Read { filled: filled + n }`)
        in_arm = lambda role, sbi: any(a == sbi or a in dom.get(sbi, ()) for a in arm_of[role])
        for sbi, st, v, _ in by_role['read']:
            if not any(cbi in dom.get(sbi, ()) for cbi, _ in completes) and not in_arm('read', sbi):
                finding('R-SEEK-EACH', b.q, 'read-without-completed-seek', 'the reader can enter the reading state without a completed seek')
        for sbi, st, v, _ in by_role['wait']:
            if not any(cbi in dom.get(sbi, ()) for cbi, _ in seeks) and not in_arm('wait', sbi):
                finding('R-SEEK-EACH', b.q, 'pollseek-without-seek', 'the reader can wait for a seek that was never started')
        for cbi, ct in seeks:
            term = simplify(T.of_operand(b, ct['args'][1]))
            if not has_field(term, 'offset'):
                finding('R-SEEK-EACH', b.q, 'seek-target', 'start_seek does not go to the current chunk\'s offset (%s)' % show(term)[:100])
        # after the chunk counter advances the state returns to "seek" on every path to the exit
        usize_fields = set(facts.fields_by_role('bitar::archive_reader::io_reader::IoChunkReader').get('usize') or [])
        seek_blocks = {bi for bi, _, _, _ in by_role['seek']}
        for bi in b.live:
            for st in b.blocks[bi]['stmts']:
                if st['k'] == 'assign' and st['pl']['p'] and st['pl']['p'][-1]['k'] == 'field' and st['pl']['p'][-1].get('n') in usize_fields:
                    term = simplify(T.of_rvalue(b, st['rv'], 0))
                    is_inc = term[0] == 'binop' and term[1] == 'Add' and ('const', 1) in (term[2], term[3]) and has_field(term, st['pl']['p'][-1].get('n'))
                    if is_inc and has_field(simplify(T.of_operand(b, seeks[0][1]['args'][1])), st['pl']['p'][-1].get('n')):
                        if not _all_paths_hit(b, bi, seek_blocks):
                            finding('R-SEEK-EACH', b.q, 'no-reseek-after-chunk', 'after a chunk is delivered the next chunk can be read without seeking to its offset')
    # the buffer the local chunk reader hands out has the length of the range it is for: the hand-out is dominated by a call that
    # sets the buffer's length from the current range's size (the fill loop sizes it - but a zero-sized range is complete before it
    # ever gets to the fill loop, and the buffer still holds the range before it)
    n_ho = 0
    for b in facts.bodies.values():
        if not b.id.startswith('bitar::archive_reader::io_reader::') or b.generated:
            continue
        if not any('q' in t['callee'] and t['callee']['q'].endswith('AsyncSeek::start_seek') for _, t in b.calls()):
            continue
        dom = b.dominators()
        sizers = [bi for bi, t in b.calls() if 'q' in t['callee'] and callee_q(t).startswith('bytes::bytes_mut::BytesMut::') and
                  callee_q(t).split('::')[-1] in ('resize', 'truncate', 'split_to', 'set_len') and len(t['args']) > 1 and
                  has_field(simplify(T.of_operand(b, t['args'][1])), 'size')]
        ret_locals = {0} | {f_['locals'][0] for f_ in (b.raw.get('inlined') or [])}      # (the helper may have been inlined into poll_next)
        for bi in b.live:
            for st in b.blocks[bi]['stmts']:
                if st['k'] == 'assign' and not st['pl']['p'] and st['pl']['l'] in ret_locals and st['rv']['k'] == 'agg' and st['rv'].get('vname') == 'Ready':
                    term = simplify(T.of_operand(b, st['rv']['ops'][0]))
                    if not any(n[0] == 'agg' and n[2] == 'Ok' for n in walk(term)):
                        continue
                    if not (has_call(term, 'BytesMut::clone') or has_call(term, 'BytesMut::freeze') or has_call(term, 'BytesMut::split')):
                        continue
                    n_ho += 1
                    cut_here = has_call(term, 'BytesMut::split_to') and has_field(term, 'size')
                    ok = cut_here or any(sb in dom.get(bi, ()) or sb == bi for sb in sizers)
                    instances.append({'rule': 'R-EXACTLEN(chunk-stream)', 'function': b.q, 'handed_out_at': st['loc'], 'length_set_from_range_size_on_every_path': ok})
                    if not ok:
                        finding('R-EXACTLEN', b.q, 'stale-buffer-length', 'the buffer handed out at %s is not brought to the size of the current range on every path to '
                                'it: a zero-sized range is complete before the fill loop sizes the buffer, so what is delivered for it is the range before it' % st['loc'])
    # ... and what is *read* for a range is the range: the buffer the reads go into is brought to the size of the range when it is
    # not of that size (or always) - a buffer that "only ever grows" (`len < size`) lets the reads for a smaller range run on into
    # the chunks behind it: bytes nobody asked for are read from the archive (and adjacent wanted bytes twice)
    for b in facts.bodies.values():
        if not b.id.startswith('bitar::archive_reader::io_reader::') or b.generated:
            continue
        for rbi, t in b.calls():
            if not ('q' in t['callee'] and callee_q(t).split('::')[-1] == 'resize' and callee_q(t).startswith(('bytes::bytes_mut::BytesMut::', 'alloc::vec::Vec::'))
                    and len(t['args']) > 1 and has_field(simplify(T.of_operand(b, t['args'][1])), 'size')):
                continue
            preds = b.preds()
            for sbi in b.live:
                sw = b.blocks[sbi]['term']
                if sw['k'] != 'switch' or sw['op']['k'] not in ('copy', 'move'):
                    continue
                edges = set(sw['targets']) | {sw['otherwise']}
                if rbi not in edges and not any(rbi in edges for _ in [0]):
                    # the switch that decides the resize directly (its block is one of the targets, or one goto away)
                    nxt = {x for e in edges for x in ([e] + [y for y in succs(b.blocks[e]['term'])] if not b.blocks[e]['stmts'] or True else [e])}
                    if rbi not in nxt:
                        continue
                ct = simplify(T.of_operand(b, sw['op']))
                if isinstance(ct, tuple) and ct[0] == 'binop' and ct[1] in ('Lt', 'Le', 'Gt', 'Ge') and any(n_[0] == 'call' and n_[1].split('::')[-1] == 'len' for n_ in walk(ct)) \
                        and has_field(ct, 'size'):
                    finding('R-EXACTLEN', b.q, 'grow-only-buffer', 'the read buffer is resized at %s only when it is %s the range: after a bigger range the reads for a smaller one run past '
                            'its end into what is stored behind it' % (t['loc'], 'smaller than' if ct[1] in ('Lt', 'Le') else 'compared by order with'))
            instances.append({'rule': 'R-EXACTLEN(read-extent)', 'function': b.q, 'resize_at': t['loc']})
    if n_ho < 1:
        finding('R-EXACTLEN', '-', 'floor-chunk-stream', 'the hand-out of the local chunk reader was not found (cannot decide)')
    if n_se < 1:
        finding('R-SEEK-EACH', '-', 'floor', 'the local chunk reader (start_seek / poll_complete / poll_read in module io_reader) was not found (cannot decide)')

    # ---------------------------------------------------------------- R-RUNS (http reader)
    # request geometry and run length, found by role: the request is built by HttpRangeRequest::new (or its aggregate), the
    # run length is a count over windows(2) of the remaining chunks
    n_req = n_adj = 0
    for b in facts.bodies.values():
        if not b.id.startswith('bitar::archive_reader::http_reader::') or b.generated:
            continue
        news = [(bi, t) for bi, t in b.calls() if 'q' in t['callee'] and callee_q(t).endswith('HttpRangeRequest::new')]
        if news and ' as bitar::archive_reader::ArchiveReader>::read_at' not in b.q and not (facts.original.get(b.raw.get('parent') or '') is not None and
                                                                                             facts.original[b.raw['parent']].q.endswith('ArchiveReader>::read_at')):
            n_req += 1
            sz = simplify(T.of_operand(b, news[0][1]['args'][2]))
            off = simplify(T.of_operand(b, news[0][1]['args'][1]))
            inst = {'rule': 'R-RUNS', 'function': b.q, 'request_constructions': len(news), 'size_term': show(sz)[:120], 'offset_term': show(off)[:80]}
            if not (has_call(sz, 'ChunkOffset::end') and has_field(sz, 'offset')):
                finding('R-RUNS', b.q, 'request-size', 'the size of a range request is not (end of last adjacent chunk - offset of first)')
            if not has_field(off, 'offset'):
                finding('R-RUNS', b.q, 'request-offset', 'a range request does not start at the first chunk\'s offset')
            # the index of the last chunk of the run comes from a count of adjacent chunks
            ok = _calls_like(sz, 'adjacent') or (has_call(sz, '::count') and has_call(sz, 'windows'))
            if not ok:
                usz = set(facts.fields_by_role('bitar::archive_reader::http_reader::ChunkReader').get('usize') or [])
                for f_ in usz:
                    if True:
                        for _, _, st in stores(b, f_):
                            vt = simplify(T.of_rvalue(b, st['rv'], 0))
                            if _calls_like(vt, 'adjacent') or (has_call(vt, '::count') and (has_call(vt, '::windows') or has_call(vt, '::take_while'))):
                                ok = True
            inst['run_length_from_adjacency'] = ok
            instances.append(inst)
            if not ok:
                finding('R-RUNS', b.q, 'run-length', 'the number of chunks covered by a request is not derived from a count of adjacent chunks')
        # the adjacency predicate: a closure applied to windows(2) of chunk offsets
        par = facts.original.get(b.raw.get('parent') or '')
        closure_form = b.raw['kind'] == 'Closure' and not b.raw.get('coroutine') and par is not None and \
            any('q' in t['callee'] and callee_q(t).endswith('::windows') for _, t in (facts.bodies.get(par.id) or par).calls())
        # ... or a loop over windows(2) written out in the function itself (`for pair in chunks.windows(2) { if !adjacent(..) { break } n += 1 }`)
        loop_form = b.raw['kind'] != 'Closure' and any('q' in t['callee'] and callee_q(t).endswith('::windows') for _, t in b.calls())
        if closure_form or loop_form:
            cmps = [(bi, st) for bi in b.live for st in b.blocks[bi]['stmts'] if st['k'] == 'assign' and st['rv']['k'] == 'binop' and st['rv']['op'] in ('Eq', 'Ne', 'Le', 'Lt', 'Ge', 'Gt')]
            if loop_form:
                # only the comparisons of chunk places (not the loop's own counters)
                cmps = [(bi, st) for bi, st in cmps if has_field(simplify(T.of_operand(b, st['rv']['a'])), 'offset') or has_field(simplify(T.of_operand(b, st['rv']['b'])), 'offset')]
            if not cmps:
                continue
            n_adj += 1
            good = False
            for bi, st in cmps:
                ta = simplify(T.of_operand(b, st['rv']['a']))
                tb = simplify(T.of_operand(b, st['rv']['b']))
                for x, y in ((ta, tb), (tb, ta)):
                    if st['rv']['op'] == 'Eq' and has_field(x, 'offset') and has_field(x, 'size') and has_field(y, 'offset') and not has_field(y, 'size'):
                        good = True
                    # `prev.end() == next.offset`: end() is the public accessor for offset + size
                    if st['rv']['op'] == 'Eq' and has_call(x, 'ChunkOffset::end') and has_field(y, 'offset') and not has_field(y, 'size') and not has_call(y, 'ChunkOffset::end'):
                        good = True
                    # the loop form may test the negation (`if prev.end() != next.offset { break }`): the unequal side leaves the loop
                    # (reaches the return without another `next()`), the equal side goes round again
                    if loop_form and st['rv']['op'] in ('Eq', 'Ne') and (has_call(x, 'ChunkOffset::end') or (has_field(x, 'offset') and has_field(x, 'size'))) and \
                            has_field(y, 'offset') and not has_field(y, 'size') and not has_call(y, 'ChunkOffset::end'):
                        from .r_accept import deciding_switch
                        dsw = deciding_switch(b, bi, st['pl']['l'])
                        if dsw is not None:
                            sw_, flipped_ = dsw
                            t_e, f_e = sw_['otherwise'], dict(zip(sw_['vals'], sw_['targets'])).get(0)
                            if flipped_:
                                t_e, f_e = f_e, t_e
                            eq_edge, ne_edge = (t_e, f_e) if st['rv']['op'] == 'Eq' else (f_e, t_e)
                            nexts_ = {cbi for cbi, ct_ in b.calls() if 'q' in ct_['callee'] and callee_q(ct_).split('::')[-1] == 'next'}
                            rets_ = {x_ for x_ in b.live if b.blocks[x_]['term']['k'] == 'return'}

                            def _reaches(start, goals, avoid):
                                seen_, w_ = set(), [start]
                                while w_:
                                    z = w_.pop()
                                    if z in seen_ or z in avoid or b.blocks[z].get('cleanup'):
                                        continue
                                    seen_.add(z)
                                    if z in goals:
                                        return True
                                    w_.extend(succs(b.blocks[z]['term']))
                                return False
                            if eq_edge is not None and ne_edge is not None and _reaches(eq_edge, nexts_, rets_) and _reaches(ne_edge, rets_, nexts_) and not _reaches(ne_edge, nexts_, rets_):
                                good = True
            instances.append({'rule': 'R-RUNS(adjacency)', 'function': b.q, 'comparisons': [show(simplify(T.of_rvalue(b, st['rv'], 0)))[:120] for _, st in cmps]})
            if not good:
                finding('R-RUNS', b.q, 'adjacency-predicate', 'adjacency is not `prev.offset + prev.size == next.offset`')
    # runs are maximal: between `windows(2)` and the count, nothing but the adjacency test ends or thins the walk (a `take(n)`
    # cuts a long run into several requests)
    LIMITERS = ('take', 'skip', 'step_by', 'filter', 'skip_while', 'nth', 'chunks', 'min', 'clamp')
    for b in facts.bodies.values():
        if not b.id.startswith('bitar::archive_reader::http_reader::') or b.generated or b.raw['kind'] == 'Closure':
            continue
        wins = [(bi, t) for bi, t in b.calls() if 'q' in t['callee'] and (callee_q(t).endswith('::windows') or 'adjacent' in callee_q(t).split('::')[-1])]
        if not wins:
            continue
        for bi, t in b.calls():
            if 'q' not in t['callee'] or callee_q(t).split('::')[-1] not in LIMITERS or not t['args']:
                continue
            recv = simplify(T.of_operand(b, t['args'][0]))
            if has_call(recv, '::windows') or (callee_q(t).split('::')[-1] in ('min', 'clamp') and
                                                any(has_call(simplify(T.of_operand(b, a)), '::count') or _calls_like(simplify(T.of_operand(b, a)), 'adjacent') for a in t['args'])):
                finding('R-RUNS', b.q, 'run-cut:' + callee_q(t).split('::')[-1], 'the walk over adjacent chunks is limited by %s at %s: a run longer than that is fetched with '
                        'several requests' % (callee_q(t).split('::')[-1], t['loc']))
    # one request per run: the request in flight is given up only when the count of chunks it still covers reaches zero, and a
    # new one is built only when none is in flight
    n_drop = 0
    creq = [f_ for k_, v_ in facts.fields_by_role('bitar::archive_reader::http_reader::ChunkReader').items() for f_ in v_]
    for b in facts.bodies.values():
        if not b.id.startswith('bitar::archive_reader::http_reader::') or b.generated:
            continue
        news = [(bi, t) for bi, t in b.calls() if 'q' in t['callee'] and callee_q(t).endswith('HttpRangeRequest::new')]
        if not news or (facts.original.get(b.raw.get('parent') or '') is not None and facts.original[b.raw['parent']].q.endswith('ArchiveReader>::read_at')):
            continue
        dom = b.dominators()
        usz = set(facts.fields_by_role('bitar::archive_reader::http_reader::ChunkReader').get('usize') or [])
        # the field that holds the request: the one a value built from HttpRangeRequest::new is stored into
        holder = None
        for bi in b.live:
            for st in b.blocks[bi]['stmts']:
                if st['k'] == 'assign' and st['pl']['p'] and st['pl']['p'][-1]['k'] == 'field' and st['pl']['p'][-1].get('n') in creq:
                    vt = simplify(T.of_rvalue(b, st['rv'], 0))
                    if has_call(vt, 'HttpRangeRequest::new'):
                        holder = st['pl']['p'][-1].get('n')
        if holder is None:
            continue
        # the request may be given up anywhere in the module (the stream's poll_next, a helper), not only where it is built
        drop_bodies = [b] + [g for g in facts.bodies.values() if g is not b and g.id.startswith('bitar::archive_reader::http_reader::') and not g.generated and
                             not any('q' in t_['callee'] and callee_q(t_).endswith('HttpRangeRequest::new') for _, t_ in g.calls())]
        for b in drop_bodies:
          dom = b.dominators()
          for bi in b.live:
            for st in b.blocks[bi]['stmts']:
                if st['k'] == 'assign' and st['pl']['p'] and st['pl']['p'][-1]['k'] == 'field' and st['pl']['p'][-1].get('n') == holder:
                    vt = simplify(T.of_rvalue(b, st['rv'], 0))
                    if has_call(vt, 'HttpRangeRequest::new'):
                        continue
                    if not (isinstance(vt, tuple) and vt[0] == 'agg' and not vt[3]):
                        continue            # not a "no request" value
                    n_drop += 1
                    guarded = False
                    zero_edges = set()
                    for cbi in b.live:
                        sw = b.blocks[cbi]['term']
                        if sw['k'] != 'switch':
                            continue
                        ct = simplify(T.of_operand(b, sw['op']))
                        if isinstance(ct, tuple) and ct[0] == 'binop' and ct[1] in ('Eq', 'Ne', 'Le', 'Lt', 'Gt', 'Ge') and \
                                any(has_field(ct, f_) for f_ in usz) and any(n_ == ('const', 0) or n_ == ('const', 1) for n_ in walk(ct)):
                            # the drop sits behind the "counter is zero" edge of this test on every path: with that edge taken
                            # away it cannot be reached (a test that is only the first half of `a == 0 || other` does not do)
                            zero_true = _zero_when_true(ct)
                            t_edge = sw['otherwise']
                            f_edge = dict(zip(sw['vals'], sw['targets'])).get(0)
                            cands = [t_edge] if zero_true is True else [f_edge] if zero_true is False else [t_edge, f_edge]
                            if any(tg is not None and not _reachable_without_edge(b, (cbi, tg), bi) for tg in cands):
                                guarded = True
                            if zero_true is not None and cands[0] is not None:
                                zero_edges.add((cbi, cands[0]))
                        elif isinstance(ct, tuple) and ct[0] == 'discr' and has_call(ct, '::checked_sub') and any(has_field(ct, f_) for f_ in usz) and \
                                (0 in sw['vals'] or sw['vals'] == [1]):
                            # `match counter.checked_sub(1) { None => .. }`: the None edge is a "counter is zero" edge too
                            zero_edges.add((cbi, sw['targets'][sw['vals'].index(0)] if 0 in sw['vals'] else sw['otherwise']))
                    if not guarded and zero_edges and not _reachable_without_edges(b, zero_edges, bi):
                        guarded = True      # behind the union of several such edges (`Some(left) if left > 0 => .., _ => drop`)
                    # ... and what is left in the receive buffer goes with it (a server may send more than the range it was asked for;
                    # the surplus is not the first chunk of the next run)
                    clears_ = {cbi for cbi, ct_ in b.calls() if 'q' in ct_['callee'] and callee_q(ct_).startswith('bytes::bytes_mut::BytesMut::') and
                               callee_q(ct_).split('::')[-1] in ('clear', 'split')}
                    emptied = bi in clears_ or any(cb in dom.get(bi, ()) and not _reachable_without_edges(b, set(), cb) is False and _all_paths_hit(b, cb, {bi}) for cb in clears_) \
                        or _all_paths_hit(b, bi, clears_)
                    instances.append({'rule': 'R-RUNS(one-request-per-run)', 'function': b.q, 'request_field': holder, 'dropped_at': st['loc'], 'guarded_by_run_counter': guarded,
                                      'buffer_emptied_with_it': emptied})
                    if not emptied:
                        finding('R-RUNS', b.q, 'dropped-with-surplus', 'the request of a finished run is given up at %s while the receive buffer keeps what the server sent beyond it: '
                                'the surplus is handed out as the first chunk of the next run, for which no request is made' % st['loc'])
                    if not guarded:
                        finding('R-RUNS', b.q, 'request-dropped-early', 'the range request in flight is given up at %s without the count of chunks it still covers having '
                                'reached zero: adjacent chunks are no longer fetched with one request' % st['loc'])
    # the receive buffer belongs to one request: it is emptied when a new request is built (what a server sent beyond the range it
    # was asked for must not be taken for the start of the next response) and every chunk stream starts with a fresh one
    CHUNK_READER = 'bitar::archive_reader::http_reader::ChunkReader'
    n_buf = 0
    for b in facts.bodies.values():
        if not b.id.startswith('bitar::archive_reader::http_reader::') or b.generated:
            continue
        news = [(bi, t) for bi, t in b.calls() if 'q' in t['callee'] and callee_q(t).endswith('HttpRangeRequest::new')]
        par_ = facts.original.get(b.raw.get('parent') or '')
        if news and not (par_ is not None and par_.q.endswith('ArchiveReader>::read_at')) and ' as bitar::archive_reader::ArchiveReader>::read_at' not in b.q:
            dom = b.dominators()
            clears = [bi for bi, t in b.calls() if 'q' in t['callee'] and callee_q(t).startswith('bytes::bytes_mut::BytesMut::') and
                      callee_q(t).split('::')[-1] in ('clear', 'split') or ('q' in t['callee'] and callee_q(t) == 'bytes::bytes_mut::BytesMut::truncate' and
                                                                     len(t['args']) > 1 and t['args'][1].get('int') == 0)]
            # (anchored where the new request is put in place - the store into the reader's request slot -, so that building it in a
            # helper before the buffer is emptied is the same thing)
            puts = []
            for sbi in b.live:
                for st_ in b.blocks[sbi]['stmts']:
                    if st_['k'] == 'assign' and st_['pl']['p'] and st_['pl']['p'][-1]['k'] == 'field' and has_call(simplify(T.of_rvalue(b, st_['rv'], 0)), 'HttpRangeRequest::new'):
                        puts.append((sbi, st_))
            for sbi, ct_ in b.calls():
                if 'q' in ct_['callee'] and callee_q(ct_).split('::')[-1] in ('insert', 'replace', 'get_or_insert', 'get_or_insert_with') and callee_q(ct_).startswith('core::option::Option::') \
                        and any(has_call(simplify(T.of_operand(b, a_)), 'HttpRangeRequest::new') for a_ in ct_['args'][1:]):
                    puts.append((sbi, ct_))
            for nbi, nt in (puts or news):
                n_buf += 1
                ok = any(cb in dom.get(nbi, ()) or cb == nbi for cb in clears) or any(nbi in dom.get(cb, ()) and _all_paths_hit(b, nbi, {cb}) for cb in clears)
                instances.append({'rule': 'R-RUNS(buffer)', 'function': b.q, 'request_built_at': nt['loc'], 'receive_buffer_emptied': ok})
                if not ok:
                    finding('R-RUNS', b.q, 'buffer-not-emptied', 'a new range request is built at %s without emptying the receive buffer: bytes a server sent beyond the '
                            'previous range are taken for the start of the new response, every chunk after them is shifted' % nt['loc'])
        for bi in b.live:
            for st in b.blocks[bi]['stmts']:
                if st['k'] == 'assign' and st['rv']['k'] == 'agg' and st['rv'].get('adt') == CHUNK_READER:
                    for name, o in zip(st['rv']['fields'], st['rv']['ops']):
                        oty = b.lty(o['pl']['l']) if o['k'] in ('copy', 'move') else {}
                        inner = oty
                        hops = 0
                        while inner.get('k') in ('ref', 'rawptr') and inner.get('args') and hops < 3:
                            inner = b.ty(inner['args'][0]); hops += 1
                        if inner.get('adt') != 'bytes::bytes_mut::BytesMut':
                            continue
                        n_buf += 1
                        term = simplify(T.of_operand(b, o))
                        fresh = hops == 0 and isinstance(term, tuple) and term[0] == 'call' and term[1].split('::')[-1] in ('new', 'with_capacity', 'default', 'zeroed')
                        instances.append({'rule': 'R-RUNS(buffer)', 'function': b.q, 'chunk_stream_built_at': st['loc'], 'buffer_field': name, 'fresh': fresh})
                        if not fresh:
                            finding('R-RUNS', b.q, 'buffer-shared', 'the chunk stream built at %s does not start with a receive buffer of its own (%s): what an abandoned '
                                    'stream left behind is handed out as the first chunks of the next one, and no request is sent for them' % (st['loc'], show(term)[:60]))
    if n_buf < 2:
        finding('R-RUNS', '-', 'floor-buffer', 'the receive buffer of the http chunk reader (its construction, its emptying at a new request) was not found (cannot decide)')
    if n_req < 1 or n_adj < 1:
        finding('R-RUNS', '-', 'floor', 'the construction of the range request / the adjacency predicate of the http chunk reader were not found (cannot decide)')
    return instances, findings


def _zero_when_true(ct):
    """for a comparison of a counter with the constant 0 / 1: is the counter zero when the comparison is true? (None: unknown)"""
    op, a, c = ct[1], ct[2], ct[3]
    flip = {'Lt': 'Gt', 'Gt': 'Lt', 'Le': 'Ge', 'Ge': 'Le', 'Eq': 'Eq', 'Ne': 'Ne'}
    if isinstance(a, tuple) and a[0] == 'const':
        a, c, op = c, a, flip[op]
    if not (isinstance(c, tuple) and c[0] == 'const'):
        return None
    k = c[1]
    return {('Eq', 0): True, ('Ne', 0): False, ('Lt', 1): True, ('Le', 0): True, ('Gt', 0): False, ('Ge', 1): False}.get((op, k))


def _reachable_without_edge(b, edge, target):
    return _reachable_without_edges(b, {edge}, target)


def _reachable_without_edges(b, edges, target):
    """can `target` be reached from the entry when none of the given CFG edges may be taken?  Path-sensitive (the explorer's
    constant environment prunes the branch on a flag a helper just returned)."""
    class Avoid(Rule):
        init = 0

        def on_term(self_, b_, bi, t, state):
            if any((bi, s2) in edges for s2 in succs(t)):
                return [(s2, state) for s2 in set(succs(t)) if (bi, s2) not in edges]
            return state
    ex = Explorer(b, Avoid())
    try:
        IN = ex.run()
    except RuntimeError:
        return True
    return bool(IN.get(target))


def _rv_ops(rv):
    out = []
    for k in ('op', 'a', 'b'):
        if isinstance(rv.get(k), dict):
            out.append(rv[k])
    out += rv.get('ops') or []
    if isinstance(rv.get('pl'), dict):
        out.append({'k': 'copy', 'pl': rv['pl']})
    return out


def _calls_like(t, part):
    return any(n[0] == 'call' and part in n[1].split('::')[-1] for n in walk(t))


def _first_before(b, dom, tgt, other, mine):
    """is call block `other` reached from `tgt` before any of `mine` (i.e. does another role's call come first in this arm)"""
    return any(other in dom.get(m, ()) for m in mine if tgt in dom.get(m, ()) or tgt == m) is False and False


def _buffer_root(b, op, depth=0):
    """the local a buffer operand refers to, looking through borrows and by-value conversions (freeze, into, from)"""
    if op['k'] not in ('copy', 'move') or depth > 8:
        return None
    base = b.base_of(op)
    l = base[0]
    ds = b.defs().get(l, [])
    if len(ds) == 1 and ds[0][0] == 'call' and 'q' in ds[0][1]['callee'] and ds[0][1]['args'] and \
            callee_q(ds[0][1]).split('::')[-1] in ('freeze', 'into', 'from', 'deref_mut', 'deref', 'as_mut', 'borrow_mut'):
        return _buffer_root(b, ds[0][1]['args'][0], depth + 1)
    if len(ds) == 1 and ds[0][0] == 'assign' and ds[0][1]['rv']['k'] == 'use' and ds[0][1]['rv']['op']['k'] in ('copy', 'move'):
        return _buffer_root(b, ds[0][1]['rv']['op'], depth + 1)
    return (l, tuple(x[1] for x in base[1]))


def _shape(t):
    """normalise a range bound: replace leaves by roles"""
    if not isinstance(t, tuple):
        return t
    if t[0] in ('param', 'var', 'cparam'):
        return str(t[-1] if t[0] != 'param' else (t[3] or t[2]))
    if t[0] == 'field':
        return str(t[2])
    if t[0] == 'binop':
        return (t[1], _shape(t[2]), _shape(t[3]))
    if t[0] == 'const':
        return t[1]
    if t[0] == 'cast':
        return _shape(t[2])
    if t[0] == 'call':
        name = t[1].split('::')[-1]
        name = {'saturating_add': 'Add', 'wrapping_add': 'Add', 'checked_add': 'Add', 'saturating_sub': 'Sub',
                'wrapping_sub': 'Sub', 'checked_sub': 'Sub'}.get(name, name)
        args = [_shape(a) for a in t[2]]
        return (name,) + tuple(args)
    return t[0]


def _all_paths_hit(b, start, targets):
    """every path from block `start` to a return passes through one of `targets` (start itself counts)"""
    if start in targets:
        return True
    seen = set()
    w = [s for s in succs(b.blocks[start]['term'])]
    while w:
        x = w.pop()
        if x in seen or b.blocks[x].get('cleanup'):
            continue
        if x in targets:
            continue
        seen.add(x)
        t = b.blocks[x]['term']
        if t['k'] == 'return':
            return False
        w.extend(succs(t))
    return True
