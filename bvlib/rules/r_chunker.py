"""C09 (tiling clause only): R-TILING, R-OFFSETACC, R-BOUNDARY-RESET.

Decided: the chunks handed out by the chunker stream tile the input — bytes leave the stream buffer only into a returned
chunk, the reported offset is an accumulator advanced by exactly the length of every delivered chunk, and the scan
position inside the buffer is reset whenever a chunk is cut off its front.  NOT decided: where the boundaries fall.
"""
from ..facts import callee_q, succs
from ..terms import Terms, simplify, show, walk, has_call

BYTESMUT = 'bytes::bytes_mut::BytesMut'
CHUNK = 'bitar::chunk::Chunk'
ENTRY = 'bitar::chunker::config::Config::new_chunker'
CHUNKER_NEXT = 'bitar::chunker::Chunker::next'

# effect of an API on a `BytesMut` it receives by reference (read off bytes 1.x bytes_mut.rs / tokio io-util)
READONLY = {'len', 'is_empty', 'capacity', 'deref', 'as_ref', 'borrow', 'chunk', 'remaining', 'has_remaining', 'iter', 'first', 'last', 'get',
            'index', 'to_vec', 'clone', 'fmt', 'eq', 'ne', 'starts_with', 'ends_with', 'spare_capacity_mut', 'remaining_mut', 'as_ptr'}
APPEND = {'reserve', 'read_buf', 'extend_from_slice', 'put_slice', 'put', 'put_u8', 'extend', 'write_all', 'write', 'try_reserve',
          'poll_read_buf', 'reserve_exact'}
CONSUME = {'split_to', 'split'}          # take bytes off the front: their result must become (part of) a returned chunk
# everything else that takes the buffer mutably (advance, clear, truncate, split_off, resize, set_len, unsplit, deref_mut,
# as_mut, drain, ...) can lose or alter bytes of the stream and is reported


def place_ty(b, pl):
    ty = b.lty(pl['l'])
    for p in pl['p']:
        k = p['k']
        if k == 'deref':
            a = ty.get('args') or []
            if not a:
                return {}
            ty = b.ty(a[0])
        elif k == 'field':
            if p.get('ty') is None:
                return {}
            ty = b.ty(p['ty'])
        elif k == 'downcast':
            pass
        else:
            return {}
    return ty


def strip_refs(b, ty, depth=0):
    while ty.get('k') in ('ref', 'rawptr') and ty.get('args') and depth < 4:
        ty = b.ty(ty['args'][0])
        depth += 1
    return ty


def _narrowed_from(b, l, depth=0, seen=None):
    """(source type, location) of an integer cast from a wider type on the way to local l (through copies, arithmetic), else None"""
    seen = seen if seen is not None else set()
    if l in seen or depth > 8:
        return None
    seen.add(l)
    for d in b.defs().get(l, []):
        if d[0] != 'assign':
            continue
        rv = d[1]['rv']
        ops = []
        if rv['k'] == 'cast' and rv['op']['k'] in ('copy', 'move') and str(rv.get('ck', '')).startswith('IntToInt'):
            sty = b.lty(rv['op']['pl']['l']) if not rv['op']['pl']['p'] else {}
            dty = b.ty(rv['ty'])
            if sty.get('k') in ('int', 'uint') and dty.get('k') in ('int', 'uint') and sty.get('bits', 64) > dty.get('bits', 64):
                return (sty.get('s'), d[1]['loc'])
            ops = [rv['op']]
        elif rv['k'] in ('use', 'cast'):
            ops = [rv['op']]
        elif rv['k'] == 'binop':
            ops = [rv['a'], rv['b']]
        elif rv['k'] == 'unop':
            ops = [rv['a']]
        for o in ops:
            if o['k'] in ('copy', 'move'):
                base = o['pl']['l']
                # the result of `x op y` with overflow is a (value, flag) pair: .0 is the value
                r = _narrowed_from(b, base, depth + 1, seen)
                if r:
                    return r
    return None


def is_buf(b, op):
    """operand is a reference to a BytesMut (the stream buffer is only ever reachable by reference: it is a field of the
    pinned stream or the `&mut BytesMut` parameter of Chunker::next); an owned BytesMut temporary is a piece already split off"""
    if op['k'] not in ('copy', 'move'):
        return False
    ty = place_ty(b, op['pl'])
    return ty.get('k') in ('ref', 'rawptr') and strip_refs(b, ty).get('adt') == BYTESMUT


def is_mut_ref(b, op):
    ty = place_ty(b, op['pl'])
    return ty.get('k') in ('ref', 'rawptr') and ty.get('mut', True) is not False


def flows_to_return(b, start_local):
    """forward def-use closure of a local through moves, aggregates and wrapping calls; True if it reaches _0"""
    S = {start_local}
    changed = True
    while changed:
        changed = False
        for bi in b.live:
            blk = b.blocks[bi]
            for st in blk['stmts']:
                if st['k'] != 'assign':
                    continue
                rv = st['rv']
                ops = []
                if rv['k'] in ('use', 'cast'):
                    ops = [rv['op']]
                elif rv['k'] == 'agg':
                    ops = rv['ops']
                if any(o['k'] in ('copy', 'move') and o['pl']['l'] in S for o in ops):
                    d = st['pl']['l']
                    if d not in S:
                        S.add(d)
                        changed = True
            t = blk['term']
            if t['k'] == 'call' and any(a['k'] in ('copy', 'move') and a['pl']['l'] in S for a in t['args']):
                q = callee_q(t) if 'q' in t['callee'] else ''
                # the value is handed to a function: it lives on in the result unless that is `()` / the call is a drop
                dty = b.lty(t['dest']['l'])
                unit = dty.get('k') == 'tuple' and not dty.get('args') or dty.get('k') == 'never'
                if q not in ('core::mem::drop', 'core::mem::forget') and not unit:
                    d = t['dest']['l']
                    if d not in S:
                        S.add(d)
                        changed = True
    return 0 in S


def run(facts, cg):
    T = Terms(facts)
    instances, findings = [], []

    def finding(rule, where, what, detail):
        key = '%s|%s|%s' % (rule, where, what)
        if key not in {x['key'] for x in findings}:
            findings.append({'rule': rule, 'key': key, 'function': where, 'what': detail})

    roots = [b.id for b in facts.bodies.values() if b.q == ENTRY]
    region = {x for x in cg.reachable(roots) if x.startswith('bitar::') and not facts.bodies[x].generated}
    # the chunker modules themselves are always in scope (a helper that is not called yet cannot hide there)
    region |= {b.id for b in facts.bodies.values() if b.id.startswith('bitar::chunker::') and not b.generated}
    # (rapid type analysis makes every From / Stream impl of the crate "reachable" from a `u32::from`: what is not in the chunker or
    # hash modules has no business with the stream buffer and is other rules' subject)
    region = {x for x in region if x.startswith(('bitar::chunker::', 'bitar::rolling_hash::'))}

    # ------------------------------------------------------------------ R-UNTRUSTED(narrowed-arith)
    # The chunkers and rolling hashes run with parameters an archive declares; validation bounds them from below only (and by
    # the width of the recorded field from above).  A value that was *narrowed* (usize -> u32) fills the narrow type: an
    # overflow-checked multiplication or addition on it is a panic for large declared values (F22: RollSum::new multiplied the
    # window size in u32 with overflow checks, a window of 11772 bytes panics in builds that check).  Wrapping / checked /
    # saturating operations are calls and carry no such assert.
    hregion = region | {b.id for b in facts.bodies.values() if b.id.startswith('bitar::rolling_hash::') and not b.generated}
    n_arith = 0
    for bid in sorted(hregion):
        b = facts.bodies[bid]
        if b.raw.get('from_test'):
            continue
        for bi in b.live:
            t = b.blocks[bi]['term']
            if t['k'] != 'assert' or t['ak'] not in ('Overflow(Mul)', 'Overflow(Add)'):
                continue
            n_arith += 1
            for o in t['ops']:
                if o['k'] not in ('copy', 'move'):
                    continue
                oty = b.lty(o['pl']['l']) if not o['pl']['p'] else {}
                if oty.get('bits', 64) > 32:
                    continue
                nar = _narrowed_from(b, o['pl']['l'])
                if nar:
                    finding('R-UNTRUSTED', b.q, 'narrowed-arith:' + t['ak'], 'an overflow-checked %s at %s works on a value that was narrowed from %s to %d bits at %s: a declared '
                            'size that fills the narrow type panics here in builds that check for overflow' % (t['ak'], t['loc'], nar[0], oty.get('bits', 32), nar[1]))
    instances.append({'rule': 'R-UNTRUSTED(narrowed-arith)', 'functions': len(hregion), 'overflow_checked_mul_add_sites': n_arith})
    # ------------------------------------------------------------------ R-TILING(end-of-source)
    # "Nothing was read" is what ends the stream (the rest of the buffer becomes the last chunk).  It must be the word of the
    # source itself: the count that is tested for zero is the Ok payload of a read on the source field as it is - not on a
    # wrapper that can come back empty for its own reasons (`take(budget)` with the budget used up), and not a value that an
    # error was turned into on the way (`Interrupted => Ok(0)`).  Either one flushes the buffer as a false last chunk in mid
    # stream; what follows is cut anew from there with the old start offset: chunks overlap, the concatenation is not the input.
    READS = ('read_buf', 'read', 'poll_read', 'poll_read_buf', 'read_exact')
    WRAP_OK = {'deref', 'deref_mut', 'borrow', 'borrow_mut', 'as_mut', 'as_ref', 'new', 'new_unchecked', 'get_mut', 'into_inner', 'get_unchecked_mut'}
    n_eos = 0
    for bid in sorted(region):
        b = facts.bodies[bid]
        if not b.id.startswith('bitar::chunker::'):
            continue
        for bi in b.live:
            sw = b.blocks[bi]['term']
            if sw['k'] != 'switch' or sw['op']['k'] not in ('copy', 'move'):
                continue
            term = simplify(T.resolve_env(simplify(T.of_operand(b, sw['op']))))
            if place_ty(b, sw['op']['pl']).get('k') == 'uint' and 0 in sw['vals']:
                pass
            elif isinstance(term, tuple) and term[0] == 'binop' and term[1] in ('Eq', 'Ne', 'Lt', 'Le', 'Gt', 'Ge') and \
                    any(isinstance(x, tuple) and x[0] == 'const' and x[1] in (0, 1) for x in (term[2], term[3])):
                # the same test spelled as a comparison with zero (`if bytes_read == 0`)
                term = term[3] if isinstance(term[2], tuple) and term[2][0] == 'const' else term[2]
            else:
                continue
            # a variable assigned on several paths (`let n = match read { Err(Interrupted) => 0, other => other? }`): all it can stand for
            from ..terms import var_alternatives
            valts = var_alternatives(T, b, term) if any(n_[0] == 'var' for n_ in walk(term)) else []
            if valts:
                term = ('phi', [simplify(T.resolve_env(a_)) for a_ in valts])
            reads = [n_ for n_ in walk(term) if n_[0] == 'call' and n_[1].split('::')[-1] in READS and ('AsyncRead' in n_[1] or 'async_read' in n_[1] or 'io::Read' in n_[1])]
            if not reads:
                continue
            n_eos += 1
            why = None
            for r_ in reads:
                recv = r_[2][0] if r_[2] else None
                inner = [n_ for n_ in walk(recv) if n_[0] == 'call' and n_[1].split('::')[-1] not in WRAP_OK] if recv is not None else []
                if inner:
                    why = 'the read goes through %s(..), not to the source itself' % inner[0][1].split('::')[-1]
            # a constant on the way: some path makes up the count
            for n_ in walk(term):
                if n_[0] == 'phi':
                    for alt in n_[1]:
                        if any(x[0] == 'const' and isinstance(x[1], int) for x in walk(alt)) and not any(x[0] == 'call' and x[1].split('::')[-1] in READS for x in walk(alt)):
                            why = why or 'on one path the count is a constant (%s) instead of what the source returned' % show(alt)[:50]
                if n_[0] == 'call' and n_[1].split('::')[-1] in ('unwrap_or', 'unwrap_or_default', 'unwrap_or_else', 'or', 'or_else', 'map_or', 'map_or_else') :
                    why = why or 'the result of the read passes through %s(..): an error becomes a count' % n_[1].split('::')[-1]
            instances.append({'rule': 'R-TILING(end-of-source)', 'function': b.q, 'at': sw['loc'], 'count_is_the_sources_own': why is None})
            if why:
                finding('R-TILING', b.q, 'false-end-of-source', 'the count tested for "nothing was read" at %s is not the source\'s own answer: %s - the buffer is flushed as a last '
                        'chunk in mid stream and the chunks that follow overlap it' % (sw['loc'], why))
    if n_eos < 1:
        finding('R-TILING', '-', 'floor-eos', 'the end-of-source test of the chunker stream was not found (cannot decide)')
    # ------------------------------------------------------------------ R-TILING
    buf_calls = 0
    consumers = 0
    for bid in sorted(region):
        b = facts.bodies[bid]
        for bi, t in b.calls():
            if 'q' not in t['callee']:
                continue
            q = callee_q(t)
            gq = t['callee']['q']
            hits = [i for i, a in enumerate(t['args']) if is_buf(b, a)]
            if not hits:
                continue
            name = q.split('::')[-1]
            d = t['callee'].get('rdef') or t['callee'].get('def')
            local_callee = d in facts.bodies or gq == CHUNKER_NEXT or gq in cg.impls
            buf_calls += 1
            if local_callee:
                # the callee's own body is analysed (it is in the region, or it is reported just below)
                if d in facts.bodies and d not in region:
                    finding('R-TILING', b.q, 'escapes:' + name, 'the stream buffer is handed to %s at %s, which is outside the analysed chunker region' % (q, t['loc']))
                continue
            by_mut = any(is_mut_ref(b, t['args'][i]) for i in hits)
            if name in READONLY:
                kind = 'read'
            elif name in APPEND:
                kind = 'append'
            elif name in CONSUME and q.startswith(BYTESMUT):
                kind = 'consume'
                consumers += 1
                if not flows_to_return(b, t['dest']['l']):
                    finding('R-TILING', b.q, 'consumed-not-returned:' + name,
                            'bytes taken off the stream buffer by %s at %s do not become part of the returned chunk: the chunks no longer tile the input' % (name, t['loc']))
            elif not by_mut and name not in CONSUME:
                kind = 'read'
            else:
                kind = 'MUTATE'
                finding('R-TILING', b.q, 'buffer-mutation:' + name,
                        '%s at %s can drop or alter bytes of the stream buffer outside a returned chunk (allowed: append by reads, split_to/split into the returned chunk)' % (q, t['loc']))
            instances.append({'rule': 'R-TILING', 'function': b.q, 'api': q, 'effect': kind, 'at': t['loc']})
        # the buffer replaced as a whole (outside the constructor's aggregate)
        for bi in b.live:
            for st in b.blocks[bi]['stmts']:
                if st['k'] == 'assign' and st['pl']['p'] and place_ty(b, st['pl']).get('adt') == BYTESMUT:
                    finding('R-TILING', b.q, 'buffer-replaced', 'the stream buffer is overwritten at %s: unread bytes are lost' % st['loc'])
    if buf_calls < 8 or consumers < 3:
        finding('R-TILING', '-', 'floor', 'expected >= 8 buffer operations and >= 3 split sites in the chunker region, found %d / %d (cannot decide)' % (buf_calls, consumers))

    # ------------------------------------------------------------------ R-OFFSETACC
    deliveries = 0
    for bid in sorted(region):
        b = facts.bodies[bid]
        dom = None
        for bi in b.live:
            for si, st in enumerate(b.blocks[bi]['stmts']):
                if not (st['k'] == 'assign' and st['rv']['k'] == 'agg' and st['rv']['ak'] == 'tuple' and len(st['rv']['ops']) == 2):
                    continue
                o_off, o_chunk = st['rv']['ops']
                if o_chunk['k'] not in ('copy', 'move') or place_ty(b, o_chunk['pl']).get('adt') != CHUNK:
                    continue
                if o_off['k'] not in ('copy', 'move') or not place_ty(b, o_off['pl']).get('s', '').startswith('u64'):
                    continue
                deliveries += 1
                toff = simplify(T.of_operand(b, o_off))
                tchunk = simplify(T.of_operand(b, o_chunk))
                inst = {'rule': 'R-OFFSETACC', 'function': b.q, 'at': st['loc'], 'offset': show(toff)[:80], 'chunk': show(tchunk)[:80]}
                instances.append(inst)
                if not (toff[0] == 'field' and isinstance(toff[2], str)):
                    finding('R-OFFSETACC', b.q, 'offset-not-accumulator', 'the offset reported with a chunk at %s is %s, not the stream position accumulator as it is' % (st['loc'], show(toff)[:80]))
                    continue
                F = toff[2]
                inst['accumulator'] = F
                from_chunker = has_call(tchunk, 'Chunker::next') or any(n[0] == 'call' and n[1].endswith('::next') for n in walk(tchunk))
                if not from_chunker:
                    continue          # the terminal chunk (rest of the buffer at end of input): nothing follows it
                dom = dom or b.dominators()
                # where the reported offset was read
                read_at = _def_site(b, o_off)
                ok = False
                why = 'no-advance'
                for sbi in b.live:
                    for ssi, sst in enumerate(b.blocks[sbi]['stmts']):
                        if sst['k'] != 'assign' or not sst['pl']['p']:
                            continue
                        fs = [p for p in sst['pl']['p'] if p['k'] == 'field']
                        if not fs or fs[-1].get('n') != F or sst['pl']['p'][-1]['k'] != 'field':
                            continue
                        term = simplify(T.of_rvalue(b, sst['rv'], 0))
                        adds = term[0] == 'binop' and term[1] == 'Add' or (term[0] == 'call' and term[1].split('::')[-1] in ('wrapping_add', 'saturating_add'))
                        parts = (term[2], term[3]) if term[0] == 'binop' else (tuple(term[2]) if term[0] == 'call' else ())
                        if not adds or len(parts) != 2:
                            why = 'advance-not-chunk-length'
                            continue
                        has_acc = any(p[0] == 'field' and p[2] == F for p in parts)
                        lens = [p for p in parts if any(n[0] == 'call' and n[1].split('::')[-1] == 'len' for n in walk(p))]
                        same_chunk = any(_mentions(p, tchunk) for p in lens)
                        if not (has_acc and lens and same_chunk):
                            why = 'advance-not-chunk-length'
                            continue
                        # the store lies on the way to the delivery and after the read of the reported offset
                        on_path = sbi == bi and ssi < si or (sbi in dom.get(bi, ()) and sbi != bi)
                        after_read = read_at is None or (read_at[0] == sbi and read_at[1] < ssi) or (read_at[0] in dom.get(sbi, ()) and read_at[0] != sbi)
                        if on_path and after_read:
                            ok = True
                        elif on_path:
                            why = 'offset-read-after-advance'
                        else:
                            why = 'advance-not-on-delivery-path'
                inst['advanced_by_chunk_length'] = ok
                if not ok:
                    finding('R-OFFSETACC', b.q, why, 'delivering a chunk at %s: the stream position `%s` is not advanced by exactly that chunk\'s length before the next chunk (%s)' % (st['loc'], F, why))
    if deliveries < 2:
        finding('R-OFFSETACC', '-', 'floor', 'expected >= 2 (offset, chunk) delivery sites in the chunker stream, found %d (cannot decide)' % deliveries)

    # ------------------------------------------------------------------ R-BOUNDARY-RESET
    nexts = [facts.bodies[x] for x in sorted(region) if facts.bodies[x].q.endswith(' as bitar::chunker::Chunker>::next')]
    for b in nexts:
        self_ty = b.q[1:b.q.index(' as ')]
        # mutable state of the chunker: named fields of self stored outside an aggregate in any method of the type
        mutable = set()
        for g in facts.bodies.values():
            if self_ty in g.q and not g.generated:
                for bi in g.live:
                    for st in g.blocks[bi]['stmts']:
                        if st['k'] == 'assign' and st['pl']['p'] and st['pl']['p'][-1]['k'] == 'field' and st['pl']['p'][-1].get('adt') == self_ty:
                            mutable.add(st['pl']['p'][-1].get('n'))
        for bi, t in b.calls():
            if 'q' not in t['callee'] or not callee_q(t).startswith(BYTESMUT) or callee_q(t).split('::')[-1] != 'split_to':
                continue
            size = simplify(T.of_operand(b, t['args'][1]))
            fields = sorted({n[2] for n in walk(size) if n[0] == 'field' and isinstance(n[2], str)} & mutable)
            inst = {'rule': 'R-BOUNDARY-RESET', 'function': b.q, 'split_at': t['loc'], 'size': show(size)[:80], 'scan_fields': fields}
            instances.append(inst)
            for F in fields:
                resets = set()
                for rbi in b.live:
                    for st in b.blocks[rbi]['stmts']:
                        if st['k'] == 'assign' and st['pl']['p'] and st['pl']['p'][-1]['k'] == 'field' and st['pl']['p'][-1].get('n') == F:
                            term = simplify(T.of_rvalue(b, st['rv'], 0))
                            if term == ('const', 0):
                                resets.add(rbi)
                    rt = b.blocks[rbi]['term']
                    if rt['k'] == 'call' and 'q' in rt['callee'] and callee_q(rt) in ('core::mem::take', 'core::mem::replace', 'std::mem::take', 'std::mem::replace'):
                        at = simplify(T.of_operand(b, rt['args'][0]))
                        if at[0] == 'field' and at[2] == F and (callee_q(rt).endswith('take') or simplify(T.of_operand(b, rt['args'][1])) == ('const', 0)):
                            resets.add(rbi)
                inst['reset_blocks'] = len(resets)
                if _path_avoiding(b, 0, bi, resets) and _reaches_return_avoiding(b, bi, resets):
                    finding('R-BOUNDARY-RESET', b.q, 'no-reset:' + F,
                            'a chunk of `%s` bytes is cut off the front of the buffer at %s but the scan position `%s` is not reset to 0 on that path: the next chunk is scanned from a stale position' % (F, t['loc'], F))
    if len(nexts) < 2:
        finding('R-BOUNDARY-RESET', '-', 'floor', 'expected >= 2 Chunker::next implementations, found %d (cannot decide)' % len(nexts))
    return instances, findings


def _mentions(term, sub):
    """does `term` contain the (chunk) term `sub`, or the same call that produced it"""
    if term == sub:
        return True
    subcalls = {n[1] for n in walk(sub) if n[0] == 'call'}
    for n in walk(term):
        if n == sub:
            return True
        if n[0] == 'call' and n[1] in subcalls and n[1].endswith('::next'):
            return True
    return False


def _def_site(b, op):
    """(block, stmt index) of the statement that reads the value of an operand out of a field, following whole-local copies"""
    l = op['pl']['l']
    if op['pl']['p']:
        return None
    for _ in range(8):
        ds = b.defs().get(l, [])
        if len(ds) != 1 or ds[0][0] != 'assign':
            return None
        _, st, bi, si = ds[0]
        rv = st['rv']
        if rv['k'] == 'use' and rv['op']['k'] in ('copy', 'move'):
            if rv['op']['pl']['p']:
                return (bi, si)
            l = rv['op']['pl']['l']
            continue
        return (bi, si)
    return None


def _path_avoiding(b, src, dst, avoid):
    if src == dst:
        return src not in avoid or True
    seen = set()
    w = [src]
    while w:
        x = w.pop()
        if x in seen or b.blocks[x].get('cleanup'):
            continue
        seen.add(x)
        if x == dst:
            return True
        if x in avoid:
            continue
        w.extend(succs(b.blocks[x]['term']))
    return False


def _reaches_return_avoiding(b, src, avoid):
    if src in avoid:
        return False
    seen = set()
    w = list(succs(b.blocks[src]['term']))
    while w:
        x = w.pop()
        if x in seen or b.blocks[x].get('cleanup'):
            continue
        seen.add(x)
        if x in avoid:
            continue
        if b.blocks[x]['term']['k'] == 'return':
            return True
        w.extend(succs(b.blocks[x]['term']))
    return False
