"""Rules about the clone command's control flow (anchored on the function that wraps a file into CloneOutput)."""
from ..facts import callee_q, succs
from ..paths import Explorer
from ..terms import Terms, simplify, has_call, has_call_deep, has_field, show, walk
from ..callgraph import CallGraph
from .r_steps import (GuardedStep, guard_from_bool_call, guard_block_device, origin_block_device, guard_from_bool_field, guard_from_option_field,
                      hash_compare_sites, exit_outcomes_from, OK_OUTCOMES)

SET_LEN = 'tokio::fs::file::File::set_len'
OPEN = ('tokio::fs::open_options::OpenOptions::open', 'std::fs::OpenOptions::open')
NEW_OUT = 'bitar::clone_output::CloneOutput::new'
CMP_CALLS = ('core::cmp::Ord::cmp', 'core::cmp::PartialOrd::partial_cmp', 'core::cmp::PartialOrd::lt', 'core::cmp::PartialOrd::le',
             'core::cmp::PartialOrd::gt', 'core::cmp::PartialOrd::ge')


def clone_functions(facts, cg):
    return sorted({b.id for (b, bi, t) in cg.calls_to(NEW_OUT) if b.crate == 'bita'})


def run(facts, cg=None):
    cg = cg or CallGraph(facts)
    T = Terms(facts)
    findings, instances = [], []

    def finding(rule, b, what, detail):
        key = '%s|%s|%s' % (rule, b.q, what)
        if key not in {x['key'] for x in findings}:
            findings.append({'rule': rule, 'key': key, 'function': b.q, 'what': detail})

    for bid in clone_functions(facts, cg):
        b = facts.bodies[bid]
        # ---------------- R-RESIZE
        def is_resize(b_, bi, t):
            if 'q' in t['callee'] and callee_q(t) == SET_LEN:
                arg = simplify(T.of_operand(b_, t['args'][1]))
                return has_call_deep(T, b_, arg, 'Archive::total_source_size')
            return False
        r = GuardedStep(b, is_resize, guard_block_device(T), bypass_value=True, origin=origin_block_device(T))
        Explorer(b, r).run()
        instances.append({'rule': 'R-RESIZE', 'function': b.q, 'ok_exits': r.ok_exits, 'steps': r.steps_seen})
        if r.steps_seen == 0:
            finding('R-RESIZE', b, 'missing', 'no set_len(total_source_size) on the clone output')
        for kind, loc, guard in r.violations:
            finding('R-RESIZE', b, 'bypass', 'a success path reaches %s without resizing the regular-file output (is_block_dev=%s)' % (loc, guard))
        # ---------------- R-VERIFYOUT
        # the digest of what the output holds now: a helper named file_checksum while it stays a call, else (inlined) a digest
        # that is not an accessor of the archive
        is_output_digest = lambda a: has_call(a, 'file_checksum') or ((has_call(a, '::finalize') or has_call(a, '::digest')) and not has_call(a, 'Archive::source_checksum')
                                                                       and not has_call(a, 'Archive::header_checksum'))
        sites = hash_compare_sites(b, T, is_output_digest, lambda a: has_call(a, 'Archive::source_checksum'))
        instances.append({'rule': 'R-VERIFYOUT', 'function': b.q, 'compare_sites': [t['loc'] for _, t, _, _ in sites]})
        if not sites:
            finding('R-VERIFYOUT', b, 'missing', 'no comparison of the output checksum with the archive source checksum')
        for bi, t, unequal, equal in sites:
            if unequal is None or not (exit_outcomes_from(b, unequal) <= {'Err'}):
                finding('R-VERIFYOUT', b, 'polarity', 'checksum mismatch at %s does not lead to an error on every path' % t['loc'])
        cmp_blocks = {bi for bi, _, _, _ in sites}
        r = GuardedStep(b, lambda b_, bi, t: bi in cmp_blocks, guard_from_bool_field(T, 'verify_output'), bypass_value=False)
        Explorer(b, r).run()
        for kind, loc, guard in r.violations:
            finding('R-VERIFYOUT', b, 'bypass', 'a success path with verify_output=%s skips the output checksum comparison' % guard)
        # ... and it looks at the output in its final form: on a regular file the digest is taken after the resize (a longer prior
        # output still has its stale tail before; the comparison then fails every run - or, were it cut later, would pass on
        # bytes that are not the result)
        is_digest = lambda b_, bi, t: bi in cmp_blocks or ('q' in t['callee'] and callee_q(t).endswith('::file_checksum'))
        r = GuardedStep(b, is_resize, guard_block_device(T), bypass_value=True, also_at=is_digest, origin=origin_block_device(T))
        Explorer(b, r).run()
        for kind, loc, guard in r.violations:
            if kind == 'before':
                finding('R-VERIFYOUT', b, 'verify-before-resize', 'the output checksum is compared at %s before the regular-file output was cut to the source '
                        'size: a prior output that was longer is verified with its stale tail' % loc)
        # ---------------- R-HDRPIN (+ before the output is opened)
        sites = hash_compare_sites(b, T, lambda a: has_field(a, 'header_checksum') and not has_call(a, 'Archive::header_checksum'),
                                   lambda a: has_call(a, 'Archive::header_checksum'))
        instances.append({'rule': 'R-HDRPIN', 'function': b.q, 'compare_sites': [t['loc'] for _, t, _, _ in sites]})
        if not sites:
            finding('R-HDRPIN', b, 'missing', 'no comparison of --verify-header with the archive header checksum')
        for bi, t, unequal, equal in sites:
            if unequal is None or not (exit_outcomes_from(b, unequal) <= {'Err'}):
                finding('R-HDRPIN', b, 'polarity', 'header checksum mismatch at %s does not lead to an error on every path' % t['loc'])
        cmp_blocks = {bi for bi, _, _, _ in sites}
        is_open = lambda b_, bi, t: 'q' in t['callee'] and callee_q(t) in OPEN
        r = GuardedStep(b, lambda b_, bi, t: bi in cmp_blocks, guard_from_option_field(T, 'header_checksum'),
                        bypass_value=False, also_at=is_open)
        Explorer(b, r).run()
        for kind, loc, guard in r.violations:
            if kind == 'before':
                finding('R-HDRPIN', b, 'open-first', 'the output is opened at %s before the pinned header checksum was compared' % loc)
            else:
                finding('R-HDRPIN', b, 'bypass', 'a success path with a pinned header checksum skips the comparison')
        # ---------------- R-SEEDOUT: --seed-output => the output is re-ordered in place on every success path
        is_reorder = lambda b_, bi, t: 'q' in t['callee'] and callee_q(t).endswith('CloneOutput::reorder_in_place')
        r = GuardedStep(b, is_reorder, guard_from_bool_field(T, 'seed_output'), bypass_value=False)
        Explorer(b, r).run()
        instances.append({'rule': 'R-SEEDOUT', 'function': b.q, 'reorder_sites': r.steps_seen})
        if r.steps_seen == 0:
            finding('R-SEEDOUT', b, 'missing', 'the clone command never re-orders the output in place')
        for kind, loc, guard in r.violations:
            finding('R-SEEDOUT', b, 'bypass', 'a success path with --seed-output=%s does not reuse the prior output (its chunks would be fetched again)' % guard)
        from . import r_who
        wq = {s_['in'] for s_ in r_who.inner_writers(facts) if not s_['api'].endswith('set_len')}
        writer_bodies = {x.id for x in facts.bodies.values() if x.q in wq}
        def may_write(b_, bi, t):
            d = t['callee'].get('rdef') or t['callee'].get('def')
            if d in facts.bodies:
                return bool(cg.reachable([d], rta=False) & writer_bodies)
            return False
        # ---------------- R-SEEDOUT(fresh): with --seed-output nothing writes to the output between its scan and the
        #                  re-ordering that consumes the scan (the planned copies read what the scan saw at those offsets)
        r = GuardedStep(b, is_reorder, guard_from_bool_field(T, 'seed_output'), bypass_value=False,
                        also_at=lambda b_, bi, t: not is_reorder(b_, bi, t) and may_write(b_, bi, t))
        Explorer(b, r).run()
        for kind, loc, guard in r.violations:
            if kind == 'before':
                finding('R-SEEDOUT', b, 'write-before-reorder', 'with --seed-output the output may be written at %s before it was re-ordered in place: '
                        'the scan the re-ordering works from is stale (chunks it wants to move may be overwritten, in-place chunks rewritten)' % loc)
        # ---------------- R-SIZECHECK: on a block device the size comparison precedes anything that may write
        size_cmp = set()
        is_size = lambda x: has_call(x, 'file_size') or has_call(x, 'AsyncSeekExt::seek') or has_call(x, 'Seek::seek') or \
            has_call(x, 'Metadata::len') or has_call(x, 'stream_position')
        is_need = lambda x: has_call(x, 'Archive::total_source_size')
        for bi in b.live:
            for st in b.blocks[bi]['stmts']:
                if st['k'] == 'assign' and st['rv']['k'] == 'binop' and st['rv']['op'] in ('Lt', 'Le', 'Gt', 'Ge'):
                    ta = simplify(T.of_operand(b, st['rv']['a']))
                    tb = simplify(T.of_operand(b, st['rv']['b']))
                    if (is_size(ta) and is_need(tb)) or (is_size(tb) and is_need(ta)):
                        size_cmp.add(bi)
                        # the two sizes are compared as they are: rounding either side (sectors, MiB) lets a device through that is
                        # short by less than the unit
                        for x in (ta, tb):
                            ar = [n_ for n_ in walk(x) if n_[0] == 'binop' and n_[1] in ('Div', 'Shr', 'Rem', 'Mul', 'Sub', 'Add', 'BitAnd')]
                            if ar:
                                finding('R-SIZECHECK', b, 'rounded', 'the device size check at %s compares values that went through %s: a device that is too small by '
                                        'less than the rounding unit passes and is written until it is full' % (st['loc'], sorted({a_[1] for a_ in ar})))
            t = b.blocks[bi]['term']
            # the same comparison spelled as a call: size.cmp(&need), size.lt(&need), ...
            if t['k'] == 'call' and 'q' in t['callee'] and t['callee']['q'] in CMP_CALLS and len(t['args']) == 2:
                ta = simplify(T.of_operand(b, t['args'][0]))
                tb = simplify(T.of_operand(b, t['args'][1]))
                if (is_size(ta) and is_need(tb)) or (is_size(tb) and is_need(ta)):
                    size_cmp.add(bi)
        instances.append({'rule': 'R-SIZECHECK', 'function': b.q, 'size_comparisons': len(size_cmp)})
        if not size_cmp:
            finding('R-SIZECHECK', b, 'missing', 'no comparison of the device size with the archive source size')
        else:
            for cbi in size_cmp:
                # the branch on the comparison: the switch that ends this block or the first one on the straight line after it
                cur, sw, hops = cbi, None, 0
                while hops < 6:
                    tt = b.blocks[cur]['term']
                    if tt['k'] == 'switch':
                        sw = tt
                        break
                    nx = [x for x in succs(tt) if not b.blocks[x].get('cleanup')]
                    if len(nx) != 1:
                        break
                    cur, hops = nx[0], hops + 1
                # the too-small side must leave with an error
                if sw is not None:
                    outs = [exit_outcomes_from(b, tgt) for tgt in set(sw['targets']) | {sw['otherwise']}]
                    if not any(o <= {'Err'} for o in outs):
                        finding('R-SIZECHECK', b, 'no-refusal', 'a too small output device does not lead to an error')
            class SizeStep(GuardedStep):
                def on_stmt(self, b_, bi, st, state):
                    state = GuardedStep.on_stmt(self, b_, bi, st, state)
                    if bi in size_cmp and st['k'] == 'assign' and st['rv']['k'] == 'binop' and st['rv']['op'] in ('Lt', 'Le', 'Gt', 'Ge'):
                        return (True, state[1], state[2])
                    return state
            is_cmp_call = lambda b_, bi, t: bi in size_cmp and 'q' in t['callee'] and t['callee']['q'] in CMP_CALLS
            r = SizeStep(b, is_cmp_call, guard_block_device(T), bypass_value=False, also_at=may_write, origin=origin_block_device(T))
            Explorer(b, r).run()
            for kind, loc, guard in r.violations:
                if kind == 'before':
                    finding('R-SIZECHECK', b, 'write-before-check', 'the output may be written at %s before a block device was checked to be large enough' % loc)
        # ---------------- R-DOMINATES: try_init ≺ open ; size check ≺ writes
        dom = b.dominators()
        opens = [(bi, t) for bi, t in b.calls() if 'q' in t['callee'] and callee_q(t) in OPEN]
        inits = [bi for bi, t in b.calls() if 'q' in t['callee'] and callee_q(t).endswith('Archive::try_init')]
        instances.append({'rule': 'R-DOMINATES(try_init<open)', 'function': b.q, 'opens': [t['loc'] for _, t in opens], 'inits': len(inits)})
        if not inits:
            finding('R-DOMINATES', b, 'no-try_init', 'clone function does not initialise the archive itself')
        for obi, ot in opens:
            if not any(ib in dom.get(obi, ()) for ib in inits):
                finding('R-DOMINATES', b, 'open-before-validate', 'output opened at %s on a path that has not validated the archive' % ot['loc'])
    # ---------------- R-VERIFYOUT(extent): the digest of the output is taken over the bytes of the source and no more.  A regular
    # file ends there after the resize, a block device does not (F21: every --verify-output clone to a device that is bigger than
    # the source failed).  Every read that feeds the digest goes through `take(n)` with n = the archive's total source size.
    n_dig = 0
    for b in facts.bodies.values():
        if b.crate != 'bita' or b.generated or not b.id.startswith('bita::clone_cmd::'):
            continue
        calls = list(b.calls())
        if not any('q' in t['callee'] and callee_q(t).endswith(('Digest::update', 'Digest>::update')) for _, t in calls):
            continue
        reads = [(bi, t) for bi, t in calls if 'q' in t['callee'] and callee_q(t).startswith('tokio::io::util::async_read_ext::AsyncReadExt::read')]
        if not reads:
            continue
        n_dig += 1
        for bi, t in reads:
            recv = simplify(T.resolve_env(simplify(T.of_operand(b, t['args'][0]))))
            limits = [n_[2][1] for n_ in walk(recv) if n_[0] == 'call' and n_[1].endswith('AsyncReadExt::take') and len(n_[2]) == 2]
            ok = False
            for L in limits:
                if has_call_deep(T, b, L, 'Archive::total_source_size'):
                    ok = True
                elif isinstance(L, tuple) and L[0] == 'param':
                    # a parameter of the digest helper: what every caller passes for it
                    sites = cg.calls_to(L[1])
                    idx = L[2]
                    ok = bool(sites) and all(idx < len(ct['args']) and has_call_deep(T, cb, simplify(T.resolve_env(simplify(T.of_operand(cb, ct['args'][idx])))), 'Archive::total_source_size')
                                             for (cb, cbi, ct) in sites)
            instances.append({'rule': 'R-VERIFYOUT(extent)', 'function': b.q, 'read_at': t['loc'], 'limited_to_source_size': ok})
            if not ok:
                finding('R-VERIFYOUT', b, 'extent', 'the output digest reads the output to its end at %s instead of the bytes of the source: a block device is usually bigger than what '
                        'was cloned to it, --verify-output then fails for a correct clone' % t['loc'])
    if n_dig < 1:
        findings.append({'rule': 'R-VERIFYOUT', 'key': 'R-VERIFYOUT|-|floor-extent', 'function': '-', 'what': 'the digest of the output was not found (cannot decide)'})
    # ---------------- the block-device test looks at the object that is written (the opened file), not at a name: the same
    # path can be a symlink to a device (/dev/disk/by-label/..) - lstat() says "not a device" and the size check is skipped
    n_bd = 0
    for b in facts.bodies.values():
        if b.crate != 'bita' or b.generated:
            continue
        calls = [callee_q(t) for _, t in b.calls() if 'q' in t['callee']]
        if not any(q.endswith(('::st_mode', '::is_block_device')) for q in calls):
            continue
        n_bd += 1
        on_file = any(q.endswith('fs::file::File::metadata') or q == 'std::fs::File::metadata' for q in calls)
        by_name = [q for q in calls if q.split('::')[-1] in ('symlink_metadata', 'metadata') and 'File::' not in q and '::fs::' in q]
        # ... with the file-type bits of st_mode: (mode & S_IFBLK) == S_IFBLK or (mode & S_IFMT) == S_IFBLK, S_IFBLK = 0o060000.  One digit
        # less (0o6000) is the set-uid + set-gid pair: a regular file with mode 6755 is taken for a device and never resized
        masks = []
        for bi_ in b.live:
            for st_ in b.blocks[bi_]['stmts']:
                if st_['k'] == 'assign' and st_['rv']['k'] == 'binop' and st_['rv']['op'] in ('Eq', 'Ne'):
                    tt = simplify(T.of_rvalue(b, st_['rv'], 0))
                    if has_call(tt, 'st_mode'):
                        # the two constants of `(st_mode() & M) == V`, read off their positions (not whatever constant the way to the
                        # metadata happens to contain)
                        def _c(x):
                            while isinstance(x, tuple) and x[0] == 'cast':
                                x = x[2]
                            return x[1] if isinstance(x, tuple) and x[0] == 'const' and isinstance(x[1], int) else None
                        V = _c(tt[2]) if _c(tt[2]) is not None else _c(tt[3])
                        A = tt[3] if _c(tt[2]) is not None else tt[2]
                        while isinstance(A, tuple) and A[0] == 'cast':
                            A = A[2]
                        M = None
                        if isinstance(A, tuple) and A[0] == 'binop' and A[1] == 'BitAnd':
                            M = _c(A[2]) if _c(A[2]) is not None else _c(A[3])
                        if V is None or M is None:
                            continue            # another shape (is_block_device(), a helper): not this rule's business
                        consts = sorted({V, M})
                        masks.append(consts)
                        if consts not in ([0x6000], [0x6000, 0xF000]):
                            key = 'R-SIZECHECK|%s|device-mask' % b.q
                            if key not in {x['key'] for x in findings}:
                                findings.append({'rule': 'R-SIZECHECK', 'key': key, 'function': b.q,
                                                 'what': 'the block-device test at %s compares st_mode with %s; the file-type bits are S_IFMT = 0o170000 and a block device is '
                                                         'S_IFBLK = 0o060000 (0x6000): other bits are permission bits, a regular file that has them set is taken for a device'
                                                         % (st_['loc'], [oct(c) for c in consts])})
        instances.append({'rule': 'R-SIZECHECK(object)', 'function': b.q, 'metadata_of_open_file': on_file, 'metadata_by_path': by_name, 'st_mode_constants': masks})
        if by_name or not on_file:
            key = 'R-SIZECHECK|%s|device-test-by-name' % b.q
            if key not in {x['key'] for x in findings}:
                findings.append({'rule': 'R-SIZECHECK', 'key': key, 'function': b.q,
                                 'what': 'whether the output is a block device is decided from %s, not from the metadata of the opened file: a symbolic link to a '
                                         'device is taken for a regular file, its size is not checked before it is written' % (by_name or 'something else')})
    if n_bd < 1:
        findings.append({'rule': 'R-SIZECHECK', 'key': 'R-SIZECHECK|-|floor-device-test', 'function': '-', 'what': 'the block-device test of the clone command was not found (cannot decide)'})
    return instances, findings
