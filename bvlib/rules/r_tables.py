"""R-WHO tables as checkable rules (frozen instances with a reason each; floors fail closed)."""
from ..facts import callee_q, succs
from ..terms import Terms, simplify, has_call, has_field, show
from . import r_who
from .r_openflags import chains
from .r_steps import hash_compare_sites

# who may construct a VerifiedChunk (function -> reason)
VERIFIED_CTORS = {
    'bitar::chunk::VerifiedChunk::new': 'hashes the chunk it wraps',
    'bitar::chunk::ArchiveChunk::verify': 'only on the equal side of the hash comparison',
    'bitar::clone_output::CloneOutput::reorder_in_place': 'data re-read from the scanned output under the hash the scan computed',
}
INNER_WRITERS = {'bitar::clone_output::CloneOutput::write_offset': 'the only writer of the clone output'}
READER_CALLERS = {
    ('bitar::archive::Archive::try_init', 'read_at'): 'header: pre-header and dictionary/offset/checksum',
    ('bitar::archive::Archive::chunk_stream', 'read_chunks'): 'stored chunk ranges of the missing chunks',
}
NONDET = ('std::time::SystemTime::now', 'std::time::Instant::now', 'chrono::', 'rand::', 'std::env::var', 'std::env::vars',
          'std::process::id', 'std::thread::current', 'std::collections::hash::map::HashMap::iter', 'std::collections::hash::map::HashMap::keys',
          'std::collections::hash::map::HashMap::values', 'std::collections::hash::map::HashMap::drain',
          'std::collections::hash::map::HashMap::into_iter', 'std::collections::hash::set::HashSet::iter',
          'std::collections::hash::map::HashMap::iter_mut', 'std::collections::hash::map::HashMap::values_mut',
          'std::collections::hash::map::HashMap::into_keys', 'std::collections::hash::map::HashMap::into_values',
          'tokio::time::Instant::now', 'std::collections::hash::map::HashMap::retain', 'std::collections::hash::map::HashMap::extract_if',
          'std::collections::hash::set::HashSet::retain', 'std::collections::hash::set::HashSet::drain', 'std::collections::hash::set::HashSet::into_iter')
# process-wide memo: what the first call computed is what every later call gets, so the archive written for one set of options
# depends on what the process did before (two archives with different levels from one service)
PROCESS_STATE = ('std::sync::once_lock::OnceLock', 'std::sync::lazy_lock::LazyLock', 'std::sync::once::Once::call_once', 'once_cell::', 'lazy_static::',
                 'std::thread::local::LocalKey', 'core::cell::once::OnceCell', 'std::sync::poison::once::Once::call_once')


def owner_fn(q):
    """strip closure suffixes and impl numbering noise: function that owns a closure/coroutine body"""
    return q.split('::{closure')[0]


def fn_name(facts, b):
    # bodies carry `q` = <adt>::method for inherent impls; closures inherit the verbose id, map through parent
    cur = b
    while cur.raw.get('parent') and cur.raw['kind'] == 'Closure':
        cur = facts.bodies.get(cur.raw['parent'], None) or cur
        if cur.raw['kind'] != 'Closure':
            break
    return cur.q


def run(facts, cg):
    T = Terms(facts)
    instances, findings = [], []

    def finding(rule, where, what, detail):
        key = '%s|%s|%s' % (rule, where, what)
        if key not in {x['key'] for x in findings}:
            findings.append({'rule': rule, 'key': key, 'function': where, 'what': detail})

    # ---------------------------------------------------------------- VerifiedChunk constructors
    ctors = []
    for b in facts.bodies.values():
        for bi in b.live:
            for st in b.blocks[bi]['stmts']:
                if st['k'] == 'assign' and st['rv']['k'] == 'agg' and st['rv'].get('adt') == r_who.VERIFIED and not b.generated:
                    ctors.append((b, bi, st))
    for b, bi, st in ctors:
        fn = fn_name(facts, b)
        if fn not in VERIFIED_CTORS:
            finding('R-WHO(verified-ctor)', fn, 'new-constructor', 'VerifiedChunk constructed in %s at %s, outside the reviewed constructors' % (fn, st['loc']))
        if fn == 'bitar::chunk::VerifiedChunk::new':
            rv = st['rv']
            d = dict(zip(rv['fields'], rv['ops']))
            th = simplify(T.of_operand(b, d['hash_sum']))
            tc = simplify(T.of_operand(b, d['chunk']))
            if not ((_is_digest(th) and has_call(th, 'Chunk::data')) or _body_digests(b, T, 'Chunk::data')):
                finding('R-WHO(verified-ctor)', fn, 'not-hashed', 'VerifiedChunk::new no longer stores the Blake2 digest of the chunk data (%s)' % show(th))
        if fn == 'bitar::chunk::ArchiveChunk::verify':
            sites = hash_compare_sites(b, T, lambda a: _is_digest(a) or a[0] == 'var' or (_body_digests(b, T, '::data') and a[0] in ('agg', 'phi')), lambda a: has_field(a, 'expected_hash') or has_field(a, 1))
            ok = False
            for cbi, ct, unequal, equal in sites:
                if unequal is None:
                    continue
                reach_u = _reach(b, unequal)
                reach_e = _reach(b, equal)
                if bi in reach_e and bi not in reach_u:
                    ok = True
            truncs = [t_ for _, t_ in b.calls() if 'q' in t_['callee'] and callee_q(t_) == 'bitar::hashsum::HashSum::truncate']
            tr_ok = any(has_call(simplify(T.of_operand(b, t_['args'][1])), 'HashSum::len') and
                        (has_field(simplify(T.of_operand(b, t_['args'][1])), 'expected_hash') or has_field(simplify(T.of_operand(b, t_['args'][1])), 1))
                        for t_ in truncs)
            if truncs and not tr_ok:
                finding('R-WHO(verified-ctor)', fn, 'weak-comparison', 'ArchiveChunk::verify truncates the computed hash to something other than the expected hash length')
            if not ok:
                finding('R-WHO(verified-ctor)', fn, 'not-on-equal-side', 'ArchiveChunk::verify builds a VerifiedChunk on a path that is not the equal side of the hash comparison')
    # data that came out of the archive becomes a VerifiedChunk only through the comparing constructor: no method of the archive
    # chunk types (nothing that has such a chunk as `self`) reaches the hashing-only constructors VerifiedChunk::new / Chunk::verify
    n_arch_methods = 0
    for b in facts.bodies.values():
        if b.generated or not b.id.startswith('bitar::chunk::') or b.arg_count < 1:
            continue
        sty = b.lty(1)
        while sty.get('k') in ('ref', 'rawptr') and sty.get('args'):
            sty = b.ty(sty['args'][0])
        if sty.get('adt') not in ('bitar::chunk::CompressedArchiveChunk', 'bitar::chunk::ArchiveChunk'):
            continue
        n_arch_methods += 1
        for bi, t in b.calls():
            if 'q' in t['callee'] and callee_q(t) in ('bitar::chunk::VerifiedChunk::new', 'bitar::chunk::Chunk::verify'):
                finding('R-WHO(verified-ctor)', b.q, 'archive-data-not-compared', '%s turns archive data into a VerifiedChunk with %s at %s, which hashes but compares with '
                        'nothing: a corrupted payload carries its own hash, is not found in the clone index and is silently skipped' % (b.q, callee_q(t), t['loc']))
    # ... and the clone command takes archive chunks to the output through ArchiveChunk::verify
    for b in facts.bodies.values():
        if b.crate != 'bita' or b.generated or '::clone_cmd::' not in b.id:
            continue
        calls = [callee_q(t) for _, t in b.calls() if 'q' in t['callee']]
        if any(q.endswith('CompressedArchiveChunk::decompress') or (q.startswith('bitar::chunk::CompressedArchiveChunk::') and q.split('::')[-1] not in ('len', 'is_empty')) for q in calls):
            if not any(q == 'bitar::chunk::ArchiveChunk::verify' for q in calls):
                finding('R-WHO(verified-ctor)', fn_name(facts, b), 'fetch-not-through-verify', 'the clone command unpacks archive chunks in %s without calling ArchiveChunk::verify '
                        'itself: whether they are compared with the hash the dictionary records is up to something else' % b.q)
    instances.append({'rule': 'R-WHO(verified-ctor)', 'sites': [{'in': fn_name(facts, b), 'at': st['loc']} for b, bi, st in ctors], 'archive_chunk_methods': n_arch_methods})
    if len(ctors) < 3:
        finding('R-WHO(verified-ctor)', '-', 'floor', 'fewer than 3 VerifiedChunk construction sites found (cannot decide)')

    # ---------------------------------------------------------------- writers of the clone output
    iw = r_who.inner_writers(facts)
    for s in iw:
        fn = fn_name(facts, facts.bodies[[b.id for b in facts.bodies.values() if b.q == s['in']][0]])
        # the output field is private to CloneOutput (E6 witness): every writer is one of its own methods; where each write goes
        # and that the chunk leaves the index is R-SEEKWRITE's and R-REMOVE-ON-WRITE's business.  set_len belongs to the command.
        if not (fn.startswith('bitar::clone_output::CloneOutput::') or (s['api'].endswith('set_len') and fn.startswith('bita::clone_cmd::'))):
            finding('R-WHO(output-writer)', fn, 'new-writer:' + s['api'].split('::')[-1], '%s writes to the clone output at %s, outside the methods of CloneOutput' % (fn, s['at']))
    instances.append({'rule': 'R-WHO(output-writer)', 'sites': iw})
    if not iw:
        finding('R-WHO(output-writer)', '-', 'floor', 'no writer of CloneOutput::inner found (cannot decide)')

    # ---------------------------------------------------------------- archive reader calls
    rc = r_who.reader_calls(facts, cg)
    for s in rc:
        bid = [b for b in facts.bodies.values() if b.q == s['in']][0]
        fn = fn_name(facts, bid)
        if fn.startswith('<') and ' as bitar::archive_reader::ArchiveReader>' in fn:
            continue
        if (fn, s['api']) not in READER_CALLERS:
            finding('R-WHO(archive-read)', fn, 'new-read:' + s['api'], 'the archive is read (%s) in %s at %s, outside header parsing and chunk_stream' % (s['api'], fn, s['at']))
        if s['in_loop']:
            finding('R-WHO(archive-read)', fn, 'read-in-loop:' + s['api'], 'archive %s at %s is inside a loop (chunks could be requested more than once)' % (s['api'], s['at']))
    instances.append({'rule': 'R-WHO(archive-read)', 'sites': rc})
    n_at = sum(1 for s in rc if s['api'] == 'read_at')
    n_ch = sum(1 for s in rc if s['api'] == 'read_chunks')
    if not (1 <= n_at <= 3) or n_ch != 1:
        finding('R-WHO(archive-read)', '-', 'count', 'expected the header read_at call(s) and exactly 1 read_chunks call site, found %d and %d' % (n_at, n_ch))
    # the chunk fetch is requested once per clone: callers of chunk_stream are not in loops
    for (b, bi, t) in cg.calls_to('bitar::archive::Archive::chunk_stream'):
        if b.crate == 'bita' and r_who.in_loop(b, bi):
            finding('R-WHO(archive-read)', fn_name(facts, b), 'chunk_stream-in-loop', 'chunk_stream is called inside a loop at %s' % t['loc'])

    # ---------------------------------------------------------------- file-system effects per command
    expect = {
        'bita::clone_cmd::clone_cmd': {'mutating': {('tokio::fs::file::File::set_len', 'bita::clone_cmd::clone_archive')}, 'write_paths': {'opts.output'}},
        'bita::compress_cmd::compress_cmd': {'mutating': {('std::fs::remove_file', 'bita::compress_cmd::compress_cmd'),
                                                           ('tokio::fs::remove_file::remove_file', 'bita::compress_cmd::compress_cmd')},
                                             'write_paths': {'opts.output', 'opts.temp_file'}},
        'bita::info_cmd::info_cmd': {'mutating': set(), 'write_paths': set()},
        # what runs before / around every command (argument parsing, logger set-up): no file of its own
        'bita::main': {'mutating': set(), 'write_paths': set()},
    }
    commands = ('bita::clone_cmd::clone_cmd', 'bita::compress_cmd::compress_cmd', 'bita::info_cmd::info_cmd', 'bita::diff_cmd::diff_cmd')
    # semantic anchors instead of function names where the role can be discovered:
    #   set_len is allowed in the function that wraps the output file into CloneOutput,
    #   remove_file in the command function itself (the one dispatched from main)
    wrap_fns = {owner_fn(b.q) for (b, bi, t) in cg.calls_to('bitar::clone_output::CloneOutput::new') if b.crate == 'bita'}
    expect['bita::clone_cmd::clone_cmd']['mutating'] = {('tokio::fs::file::File::set_len', w) for w in wrap_fns}
    for entry, exp in expect.items():
        if entry not in facts.bodies:
            finding('R-WHO(fs-effects)', entry, 'anchor', 'command entry point %s not found (cannot decide)' % entry)
            continue
        reach, sites = r_who.fs_effects(facts, cg, entry, minus=commands if entry == 'bita::main' else ())
        muts = [s for s in sites if s['kind'] == 'MUTATING']
        for s in muts:
            fn = owner_fn(s['in'])
            if (s['api'], fn) not in exp['mutating']:
                finding('R-WHO(fs-effects)', entry, 'effect:%s@%s' % (s['api'].split('::')[-1], fn), '%s is reachable from %s (in %s at %s)' % (s['api'], entry, fn, s['at']))
        wpaths = []
        for bid in sorted(reach):
            b = facts.bodies[bid]
            for ch in chains(b):
                if ch.get('path_op') is not None:
                    from .r_openflags import resolved_paths
                    ch['path'] = '|'.join(sorted(resolved_paths(facts, cg, b, ch['path_op'])))
                effs = set().union(*[r[1] for r in ch['table']]) if ch['table'] else set()
                if effs & {'write', 'append', 'create', 'create_new', 'truncate'} or not ch['complete']:
                    wpaths.append((ch['path'], ch['at'], b.q))
                    if ch['path'] not in exp['write_paths']:
                        finding('R-WHO(fs-effects)', entry, 'write-open:%s' % ch['path'], 'a file other than the declared ones is opened for writing: %s at %s' % (ch['path'], ch['at']))
        instances.append({'rule': 'R-WHO(fs-effects)', 'entry': entry, 'functions_reachable': len(reach),
                          'fs_call_sites': [(s['api'], s['kind'], s['at']) for s in sites if s['kind'] != 'open-builder'],
                          'write_opens': wpaths})
        if entry not in ('bita::info_cmd::info_cmd', 'bita::main') and not wpaths:
            finding('R-WHO(fs-effects)', entry, 'floor', 'no write-open found for a command that must write its output (cannot decide)')

    # ---------------------------------------------------------------- concurrency combinators and nondeterminism in the writers
    wb = r_who.descriptor_builders(facts)
    comb = r_who.combinators(facts, cg, wb)
    instances.append({'rule': 'R-WHO(ordered-combinators)', 'writers': [facts.bodies[w].q for w in wb], 'buffered': comb['buffered'], 'unordered': comb['unordered']})
    for u in comb['unordered']:
        finding('R-WHO(ordered-combinators)', owner_fn(u['in']), 'unordered:' + u['api'].split('::')[-1], 'completion-order combinator %s in an archive writer at %s: descriptor / rebuild order would depend on scheduling' % (u['api'], u['at']))
    if len(wb) < 2 or len(comb['buffered']) < 2:
        finding('R-WHO(ordered-combinators)', '-', 'floor', 'expected 2 writers with at least one buffered() stage each (found %d writers, %d stages): cannot decide' % (len(wb), len(comb['buffered'])))
    nd = []
    dict_builders = r_who.descriptor_builders(facts, adt='bitar::chunk_dictionary::ChunkDictionary')
    # (the functions that assemble the dictionary - metadata, parameters - are writers too)
    for u in r_who.combinators(facts, cg, [d_ for d_ in dict_builders if d_ not in wb])['unordered']:
        finding('R-WHO(ordered-combinators)', owner_fn(u['in']), 'unordered:' + u['api'].split('::')[-1], 'completion-order collection %s in a function that assembles '
                'the archive dictionary (%s): what is recorded would depend on scheduling' % (u['api'], u['at']))
    for w in sorted(set(wb) | set(dict_builders)):
        fn = owner_fn(w)
        for bid in sorted(x for x in facts.bodies if x == fn or x.startswith(fn + '::')):
            b = facts.bodies[bid]
            for bi, t in b.calls():
                if 'q' in t['callee']:
                    q = callee_q(t)
                    gq = t['callee']['q']
                    if q.startswith(NONDET) or gq.startswith(NONDET):
                        nd.append({'api': q, 'in': b.q, 'at': t['loc']})
                        finding('R-WHO(nondeterminism)', fn, 'source:' + q.split('::')[-1], 'nondeterministic source %s used inside an archive writer at %s' % (q, t['loc']))
    # ... and in the library code the writers reach (hashing, compression, the header encoder)
    wroots = sorted({owner_fn(w) for w in set(wb) | set(dict_builders)})
    reach_w = cg.reachable([r_ for r_ in wroots if r_ in facts.bodies])
    n_scanned = 0
    for bid in sorted(reach_w):
        b = facts.bodies.get(bid)
        if b is None or b.crate not in ('bita', 'bitar') or b.generated:
            continue
        n_scanned += 1
        for bi, t in b.calls():
            if 'q' in t['callee']:
                q = callee_q(t)
                if q.startswith(PROCESS_STATE) or t['callee']['q'].startswith(PROCESS_STATE):
                    nd.append({'api': q, 'in': b.q, 'at': t['loc']})
                    finding('R-WHO(nondeterminism)', b.q, 'process-state:' + q.split('::')[-1], 'process-wide state (%s) on the way of an archive writer at %s: what is '
                            'written depends on what this process did before, not only on the input and the options' % (q, t['loc']))
    instances.append({'rule': 'R-WHO(nondeterminism)', 'writers': [owner_fn(w) for w in wb], 'sources_found': nd, 'functions_reached_from_writers': n_scanned})
    # metadata container type
    for adt, a in facts.adts.items():
        if adt == 'bitar::chunk_dictionary::ChunkDictionary':
            for fd in a['variants'][0]['fields']:
                if fd['n'] == 'metadata':
                    ty = facts.types[('bitar', fd['ty'])]
                    instances.append({'rule': 'R-WHO(metadata-container)', 'type': ty['s']})
                    if ty.get('adt') != 'alloc::collections::btree::map::BTreeMap':
                        finding('R-WHO(nondeterminism)', adt, 'metadata-not-btree', 'ChunkDictionary.metadata is %s, not a BTreeMap: encoding order would be unspecified' % ty['s'])
    return instances, findings


def _is_digest(t):
    """a Blake2 digest: the crate's own helper while it is a call, else (inlined / renamed) the hasher's finalize / one-shot digest"""
    return has_call(t, 'HashSum::b2_digest') or has_call(t, '::finalize') or has_call(t, 'Digest>::digest') or has_call(t, '::digest')


def _body_digests(b, T, data_call):
    """the (flattened) body feeds a Blake2 hasher with data obtained through `data_call` (the digest helper was inlined and its
    result is assembled through a mutable buffer, which provenance terms do not follow)"""
    for bi, t in b.calls():
        if 'q' in t['callee'] and callee_q(t).split('::')[-1] in ('update', 'digest', 'chain_update', 'update_with_size') and \
                ('Digest' in t['callee']['q'] or 'Update' in t['callee']['q'] or 'blake2' in callee_q(t)):
            for a in t['args']:
                if has_call(simplify(T.of_operand(b, a)), data_call):
                    return True
    return False


def _reach(b, start):
    seen = set()
    w = [start]
    while w:
        x = w.pop()
        if x in seen or x is None or b.blocks[x].get('cleanup'):
            continue
        seen.add(x)
        w.extend(succs(b.blocks[x]['term']))
    return seen
