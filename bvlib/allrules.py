"""Run every implemented rule; returns {rule module name: (instances, findings)}"""
from .facts import Facts
from .callgraph import CallGraph


def load(d):
    return Facts([d + '/bitar.lib.json', d + '/bita.bin.json'])


def run_all(facts):
    from .rules import r_flush, r_cursor, r_clone_flow
    cg = CallGraph(facts)
    out = {}
    from .rules.r_more import _guard
    out['r_flush'] = _guard('r_flush', lambda f_, c_: r_flush.run(f_), facts, cg)
    out['r_cursor'] = _guard('r_cursor', lambda f_, c_: r_cursor.run(f_), facts, cg)
    out['r_clone_flow'] = _guard('r_clone_flow', r_clone_flow.run, facts, cg)
    from .rules import r_more
    out.update(r_more.run(facts, cg))
    # position independent keys: no impl-block or closure ordinals in what identifies a violation
    for name, (inst, fnd) in out.items():
        for x in fnd:
            x['key'] = facts.stabilise(x['key'])
            x['function_id'] = x.get('function')
            fb = facts.original.get(x.get('function')) or next((b_ for b_ in facts.original.values() if b_.q == x.get('function')), None)
            x['function_at'] = fb.raw.get('span') if fb is not None else None
            x['function'] = facts.stabilise(str(x.get('function')))
    return out


def keys(res):
    ks = []
    for name, (inst, fnd) in res.items():
        ks.extend(x['key'] for x in fnd)
    return sorted(ks)
