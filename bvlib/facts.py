"""Utility layer over exported facts: CFG, dominators, defs, alias classes, awaits."""
import json, collections, re, os


class Facts:
    def __init__(self, paths, inline=True):
        self.bodies = {}
        self.types = {}
        self.adts = {}
        raws = {}
        for p in paths:
            d = json.load(open(p))
            c = d['crate']
            assert d['stolen'] == 0, (c, d['stolen'])
            for i, t in enumerate(d['types']):
                self.types[(c, i)] = t
            for b in d['bodies']:
                b['crate'] = c
                raws[b['id']] = b
            for a in d['adts']:
                self.adts[a['id']] = a
        self.original = {bid: Body(self, r) for bid, r in raws.items()}
        self.inliner = None
        if inline and os.environ.get('BV_NO_INLINE') != '1':
            from .inline import Inliner
            from .known_private import KNOWN_PRIVATE
            inl = Inliner(raws, lambda r: r['q'] in KNOWN_PRIVATE)
            flat = {bid: inl.flat(bid) for bid in raws}
            gone = inl.absorbed()
            for bid, r in flat.items():
                if bid not in gone:
                    self.bodies[bid] = Body(self, r)
            self.inliner = inl
            self.absorbed = gone
        else:
            self.bodies = dict(self.original)
            self.absorbed = set()
        self._stable = None

    def fields_by_role(self, adt):
        """field names of a crate-local struct by what they are rather than what they are called:
        {'param': [fields whose type is a type parameter], <adt id>: [fields of that ADT type], 'usize': [...], 'bool': [...]}"""
        out = collections.defaultdict(list)
        a = self.adts.get(adt)
        if not a or not a['variants']:
            return out
        crate = adt.split('::')[0]
        todo = list(a['variants'][0]['fields'])
        seen_adts = {adt}
        while todo:
            fd = todo.pop(0)
            ty = self.types.get((crate, fd['ty']), {})
            # a struct that is not one of the reviewed tree's types and merely groups fields (`progress: RunProgress { chunk_index, .. }`):
            # its fields count as fields of the outer struct, by their own roles
            inner = self.adts.get(ty.get('adt') or '')
            if inner and len(inner['variants']) == 1 and inner['variants'][0]['fields'] and ty['adt'] not in seen_adts and \
                    ty['adt'].startswith(crate + '::') and ty['adt'] not in _known_types():
                seen_adts.add(ty['adt'])
                todo.extend(inner['variants'][0]['fields'])
            if ty.get('k') == 'param':
                out['param'].append(fd['n'])
            elif ty.get('adt'):
                out[ty['adt']].append(fd['n'])
            elif ty.get('k') in ('uint', 'int'):
                out[ty.get('s', 'int')].append(fd['n'])
            elif ty.get('k') == 'bool':
                out['bool'].append(fd['n'])
            else:
                out[ty.get('k', '?')].append(fd['n'])
        return out

    def stable_names(self):
        """id / q -> position independent display name: impl blocks by their self type, closures without their ordinal,
        so that adding an impl block or a closure elsewhere does not rename every later function"""
        if self._stable is None:
            m = {}

            def nm(b, depth=0):
                par = b.raw.get('parent')
                if par and par in self.original and depth < 12:
                    return nm(self.original[par], depth + 1) + '::{closure}'
                return b.q
            for b in self.original.values():
                name = nm(b)
                m[b.id] = name
                m[b.q] = name
            self._stable = sorted(m.items(), key=lambda kv: -len(kv[0]))
        return self._stable

    def stabilise(self, text):
        if '{impl#' not in text and '{closure#' not in text:
            return text
        for old, new in self.stable_names():
            if old in text and ('{impl#' in old or '{closure#' in old):
                text = text.replace(old, new)
        return re.sub(r'\{closure#\d+\}', '{closure}', text)


def _known_types():
    from .known_private import KNOWN_TYPES
    return KNOWN_TYPES


def _rule_sources():
    """text of all rule modules: a private function named there is an anchor and is not inlined"""
    base = os.path.dirname(os.path.abspath(__file__))
    out = []
    for d in (base, os.path.join(base, 'rules')):
        for fn in sorted(os.listdir(d)):
            if fn.endswith('.py') and fn not in ('inline.py', 'facts.py'):
                out.append(open(os.path.join(d, fn)).read())
    return '\n'.join(out)


def strip_generics(s):
    """remove `::<...>` generic argument lists (balanced) from a pretty path"""
    out, depth, i = [], 0, 0
    while i < len(s):
        if depth == 0 and s.startswith('::<', i):
            depth = 1
            i += 3
            continue
        if depth:
            if s[i] == '<':
                depth += 1
            elif s[i] == '>' and s[i - 1] != '-':
                depth -= 1
            i += 1
            continue
        out.append(s[i])
        i += 1
    return ''.join(out)


class DomSet:
    def __init__(self, body, bi, classic):
        self.body, self.bi, self.classic = body, bi, classic

    def __contains__(self, a):
        return a in self.classic or (isinstance(a, int) and self.body._ps_dominates(a, self.bi))

    def __iter__(self):
        return iter(self.classic)

    def __len__(self):
        return len(self.classic)


class DomMap:
    def __init__(self, body, classic):
        self.body, self.classic = body, classic

    def get(self, bi, default=None):
        if bi not in self.classic:
            return default
        return DomSet(self.body, bi, self.classic[bi])

    def __getitem__(self, bi):
        return DomSet(self.body, bi, self.classic[bi])

    def __contains__(self, bi):
        return bi in self.classic


def succs(term):
    k = term['k']
    if k in ('goto', 'drop', 'assert', 'yield'):
        return [term['t']]
    if k == 'call':
        return [term['t']] if term['t'] is not None else []
    if k == 'switch':
        return list(term['targets']) + [term['otherwise']]
    return []


def rv_operands(rv):
    k = rv['k']
    if k in ('use', 'cast', 'repeat'):
        yield rv['op']
    elif k == 'binop':
        yield rv['a']
        yield rv['b']
    elif k == 'unop':
        yield rv['a']
    elif k == 'agg':
        for o in rv['ops']:
            yield o


def rv_places(rv):
    if rv['k'] in ('ref', 'rawptr', 'discr'):
        yield rv['pl']


def op_local(op):
    return op['pl']['l'] if op['k'] in ('copy', 'move') else None


class Body:
    def __init__(self, facts, raw):
        self.f = facts
        self.raw = raw
        self.id = raw['id']
        self.q = raw['q']
        self.crate = raw['crate']
        self.blocks = raw['blocks']
        self.locals = raw['locals']
        self.arg_count = raw['arg_count']
        self.live = [i for i, b in enumerate(self.blocks) if not b.get('cleanup')]
        self._dom = None
        self._defs = None
        self._alias = None

    @property
    def generated(self):
        """body consists entirely of macro-expanded code (derive / prost-generated impls)"""
        if not hasattr(self, '_gen'):
            flags = []
            for bi in self.live:
                blk = self.blocks[bi]
                flags.extend(st.get('exp', True) for st in blk['stmts'] if st['k'] == 'assign')
                flags.append(blk['term'].get('exp', True))
            self._gen = bool(flags) and all(flags)
        return self._gen

    def ty(self, idx):
        return self.f.types[(self.crate, idx)]

    def lty(self, l):
        return self.ty(self.locals[l]['ty'])

    def name(self, l):
        return self.locals[l]['name'] or '_%d' % l

    # ---------------------------------------------------------------- CFG
    def reachable(self):
        seen = {0}
        w = [0]
        fe = self.feasible_edges()
        while w:
            x = w.pop()
            for s in succs(self.blocks[x]['term']):
                if s not in seen and not self.blocks[s].get('cleanup') and (fe is None or (x, s) in fe):
                    seen.add(s)
                    w.append(s)
        return seen

    def feasible_edges(self):
        """for a flattened body: the CFG edges that remain when the `?` dispatch after an inlined helper is resolved with
        the variant the helper is known to return on that path (None for bodies without inlined frames)"""
        if not self.raw.get('inlined'):
            return None
        if not hasattr(self, '_fe'):
            from .paths import Explorer, Rule
            ex = Explorer(self, Rule())
            try:
                ex.run()
                self._fe = ex.edges
            except RuntimeError:
                self._fe = None
        return self._fe

    def preds(self):
        p = collections.defaultdict(list)
        fe = self.feasible_edges()
        for b in self.reachable():
            for s in succs(self.blocks[b]['term']):
                if not self.blocks[s].get('cleanup') and (fe is None or (b, s) in fe):
                    p[s].append(b)
        return p

    def dominators(self):
        """dom[b] = blocks dominating b.  For a flattened body membership is decided path-sensitively when the plain CFG says
        no: after an inlined helper returned, only the side of the `?` dispatch that matches what the helper returned on that
        path is followed, so a check inside a helper dominates what follows the helper's success."""
        if self._dom is not None:
            return self._dom
        classic = self._classic_dominators()
        # (also for plain bodies: `let ok = a && b; if !ok { return Err }` joins in a flag whose constant value decides the test)
        self._dom = DomMap(self, classic)
        return self._dom

    def _ps_dominates(self, a, bi):
        if not hasattr(self, '_psd'):
            self._psd = {}
        if a not in self._psd:
            from .paths import Explorer, Rule

            class Passed(Rule):
                init = False

                def on_term(self_, b, x, t, state):
                    return True if x == a else state
            ex = Explorer(self, Passed())
            try:
                IN = ex.run()
                self._psd[a] = {x for x, sts in IN.items() if sts and all(rs for (rs, oc) in sts)} | {a}
            except RuntimeError:
                self._psd[a] = {a}
        return bi in self._psd[a]

    def _classic_dominators(self):
        if getattr(self, '_cdom', None) is not None:
            return self._cdom
        reach = sorted(self.reachable())
        preds = self.preds()
        allb = set(reach)
        dom = {b: set(allb) for b in reach}
        dom[0] = {0}
        changed = True
        # reverse post order would be faster; fine for <2000 blocks
        while changed:
            changed = False
            for b in reach:
                if b == 0:
                    continue
                ps = [dom[p] for p in preds[b] if p in dom]
                new = set.intersection(*ps) if ps else set()
                new = new | {b}
                if new != dom[b]:
                    dom[b] = new
                    changed = True
        self._cdom = dom
        return dom

    # ---------------------------------------------------------------- defs / aliases
    def defs(self):
        if self._defs is not None:
            return self._defs
        d = collections.defaultdict(list)
        for bi in self.live:
            blk = self.blocks[bi]
            for si, st in enumerate(blk['stmts']):
                if st['k'] == 'assign':
                    # a store through a reference (`(*r).f = ..`) changes what r points to, it does not define r
                    if st['pl']['p'] and st['pl']['p'][0]['k'] == 'deref':
                        continue
                    d[st['pl']['l']].append(('assign', st, bi, si))
            t = blk['term']
            if t['k'] == 'call':
                d[t['dest']['l']].append(('call', t, bi, None))
            if t['k'] == 'yield':
                d[t['resume_arg']['l']].append(('yield', t, bi, None))
        self._defs = d
        return d

    def alias_classes(self):
        """union-find over whole-local copy / move / int cast / reborrow chains"""
        if self._alias is not None:
            return self._alias
        parent = list(range(len(self.locals)))

        def find(x):
            while parent[x] != x:
                parent[x] = parent[parent[x]]
                x = parent[x]
            return x

        def union(a, b):
            a, b = find(a), find(b)
            if a != b:
                parent[a] = b
        for bi in self.live:
            for st in self.blocks[bi]['stmts']:
                if st['k'] != 'assign' or st['pl']['p']:
                    continue
                rv = st['rv']
                src = None
                if rv['k'] == 'use' and rv['op']['k'] in ('copy', 'move') and not rv['op']['pl']['p']:
                    src = rv['op']['pl']['l']
                elif rv['k'] == 'cast' and rv['op']['k'] in ('copy', 'move') and not rv['op']['pl']['p'] \
                        and rv['ck'].startswith(('IntToInt', 'PointerCoercion')):
                    src = rv['op']['pl']['l']
                elif rv['k'] == 'use' and rv['op']['k'] in ('copy', 'move') and \
                        [p['k'] for p in rv['op']['pl']['p']] == ['deref']:
                    # x = *r where r = &y  (handled through base_of below) -- skip
                    src = None
                if src is not None:
                    union(st['pl']['l'], src)
        self._alias = find
        return find

    def base_of_place(self, pl, depth=0):
        """Resolve a place through reference temporaries to (local, field-path)."""
        l = pl['l']
        fields = tuple((p.get('adt'), p.get('n') if p.get('n') is not None else p.get('i'))
                       for p in pl['p'] if p['k'] == 'field')
        ds = self.defs().get(l, [])
        is_ref = self.lty(l).get('k') in ('ref', 'rawptr')
        if depth < 16 and is_ref and len(ds) == 1 and ds[0][0] == 'assign' and not ds[0][1]['pl']['p']:
            rv = ds[0][1]['rv']
            if rv['k'] in ('ref', 'rawptr'):
                b = self.base_of_place(rv['pl'], depth + 1)
                return (b[0], b[1] + fields)
            if rv['k'] == 'use' and rv['op']['k'] in ('copy', 'move'):
                b = self.base_of_place(rv['op']['pl'], depth + 1)
                return (b[0], b[1] + fields)
        return (l, fields)

    def base_of(self, op):
        if op['k'] not in ('copy', 'move'):
            return None
        return self.base_of_place(op['pl'])

    def calls(self):
        for bi in self.live:
            t = self.blocks[bi]['term']
            if t['k'] == 'call':
                yield bi, t


def callee_q(t):
    c = t['callee']
    return c.get('rq') or c.get('q')


def callee_def(t):
    c = t['callee']
    return c.get('rdef') or c.get('def')
