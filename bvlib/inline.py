"""Normalising inliner over the exported MIR facts.

Private (not externally reachable) functions of a crate are implementation detail: whether a step is written in place or
moved into a helper function / a private `async fn` does not change behaviour, so the rules must not depend on it.  Before
any rule runs, every call of a private same-crate function is replaced by the callee's blocks (locals and blocks renumbered,
parameters assigned from the arguments, `return` turned into an assignment of the destination and a jump), and every
`.await` of a private `async fn` gets the coroutine body in place of the `poll` call (the captured parameters are substituted
by the caller's operands, the Ready/Pending dispatch after the poll is resolved to Ready).  Helpers that are inlined at all
of their uses are *absorbed*: they are no longer analysed as functions of their own.

Not inlined: public API (anchors of the rule tables), trait-impl methods, closures passed to adapters, recursive calls, and
the private functions a rule still names as an anchor (KEEP; shrinks as rules are re-anchored on roles).
"""
import copy
import re

MAX_DEPTH = 6
MAX_BLOCKS = 6000
BIG = 400


def _r_place(pl, lb, env):
    l = pl['l']
    p = pl['p']
    if env is not None and l == 1 and p and p[0]['k'] == 'field' and isinstance(p[0].get('i'), int) and p[0]['i'] < len(env) \
            and env[p[0]['i']] is not None:
        base = env[p[0]['i']]
        return {'l': base['l'], 'p': list(base['p']) + [_r_proj(x, lb) for x in p[1:]]}
    return {'l': l + lb, 'p': [_r_proj(x, lb) for x in p]}


def _r_proj(x, lb):
    if x['k'] == 'index' and 'l' in x:
        y = dict(x)
        y['l'] = x['l'] + lb
        return y
    return x


def _r_op(o, lb, env):
    if o.get('k') in ('copy', 'move'):
        return {'k': o['k'], 'pl': _r_place(o['pl'], lb, env)}
    return o


def _r_rv(rv, lb, env):
    k = rv['k']
    r = dict(rv)
    if k in ('use', 'cast', 'repeat'):
        r['op'] = _r_op(rv['op'], lb, env)
    elif k in ('ref', 'rawptr', 'discr'):
        r['pl'] = _r_place(rv['pl'], lb, env)
    elif k == 'binop':
        r['a'] = _r_op(rv['a'], lb, env)
        r['b'] = _r_op(rv['b'], lb, env)
    elif k == 'unop':
        r['a'] = _r_op(rv['a'], lb, env)
    elif k == 'agg':
        r['ops'] = [_r_op(o, lb, env) for o in rv['ops']]
    return r


def _r_stmt(st, lb, env):
    k = st['k']
    r = dict(st)
    if k == 'assign':
        r['pl'] = _r_place(st['pl'], lb, env)
        r['rv'] = _r_rv(st['rv'], lb, env)
    elif k == 'setdiscr':
        r['pl'] = _r_place(st['pl'], lb, env)
    elif k == 'dead':
        r['l'] = st['l'] + lb
    return r


def _r_term(t, lb, bb, env):
    k = t['k']
    r = dict(t)
    if 't' in t and t['t'] is not None:
        r['t'] = t['t'] + bb
    if k == 'switch':
        r['op'] = _r_op(t['op'], lb, env)
        r['targets'] = [x + bb for x in t['targets']]
        r['otherwise'] = t['otherwise'] + bb
    elif k == 'drop':
        r['pl'] = _r_place(t['pl'], lb, env)
    elif k == 'call':
        r['args'] = [_r_op(a, lb, env) for a in t['args']]
        r['dest'] = _r_place(t['dest'], lb, env)
        c = t['callee']
        if 'indirect' in c:
            c = dict(c)
            c['indirect'] = _r_op(c['indirect'], lb, env)
            r['callee'] = c
    elif k == 'assert':
        r['cond'] = _r_op(t['cond'], lb, env)
        r['ops'] = [_r_op(o, lb, env) for o in t['ops']]
    elif k == 'yield':
        r['value'] = _r_op(t['value'], lb, env)
        r['resume_arg'] = _r_place(t['resume_arg'], lb, env)
    return r


from .known_private import KNOWN_TYPES


class Inliner:
    def __init__(self, raws, keep):
        """raws: {body id: raw body dict (with 'crate')} ; keep: predicate(raw) -> True if the function must stay a call"""
        self.raws = raws
        self.keep = keep
        self.cache = {}
        self.inlined_at = {}        # callee id -> number of sites where it was inlined
        self.kept_calls = {}        # callee id -> number of call sites left as calls
        self.coroutine_of = {}      # async fn id -> coroutine body id
        for bid, r in raws.items():
            if r['kind'] != 'Closure':
                c = self._shell_coroutine(r)
                if c:
                    self.coroutine_of[bid] = c
        self.fn_values = set()      # functions used as values (callbacks): never absorbed
        for r in raws.values():
            for blk in r['blocks']:
                if blk.get('cleanup'):
                    continue
                for st in blk['stmts']:
                    if st['k'] == 'assign':
                        for o in _ops(st['rv']):
                            if o.get('k') == 'const' and o.get('fn'):
                                self.fn_values.add(o['fn'])
                t = blk['term']
                if t['k'] == 'call':
                    for a in t['args']:
                        if a.get('k') == 'const' and a.get('fn'):
                            self.fn_values.add(a['fn'])

    @staticmethod
    def _shell_coroutine(r):
        """an `async fn` is a shell that builds its coroutine and returns it"""
        for blk in r['blocks']:
            if blk.get('cleanup'):
                continue
            for st in blk['stmts']:
                if st['k'] == 'assign' and st['rv']['k'] == 'agg' and st['rv'].get('ak') == 'coroutine' \
                        and not st['pl']['p'] and st['pl']['l'] == 0:
                    return st['rv']['body']
        return None

    def inlinable(self, caller, gid):
        g = self.raws.get(gid)
        if g is None or g['kind'] == 'Closure' or g['crate'] != caller['crate']:
            return False
        if g.get('public') or self.keep(g):
            return False
        if g['q'].startswith('<'):
            # a trait impl: an anchor of the rule tables when it is on a type of the reviewed tree; on a type introduced later
            # (a private helper enum with `From<bool>`, a wrapper with `Display`) it is a helper like any other
            self_ty = g['q'][1:].split(' as ')[0]
            return self_ty.startswith(g['crate'] + '::') and '<' not in self_ty and self_ty not in KNOWN_TYPES and not self._all_expanded(g)
        return True

    @staticmethod
    def _all_expanded(g):
        flags = []
        for blk in g['blocks']:
            if blk.get('cleanup'):
                continue
            flags.extend(st.get('exp', True) for st in blk['stmts'] if st['k'] == 'assign')
            flags.append(blk['term'].get('exp', True))
        return bool(flags) and all(flags)

    # ------------------------------------------------------------------ main entry
    def flat(self, bid, stack=()):
        if bid in self.cache:
            return self.cache[bid]
        src = self.raws[bid]
        raw = dict(src)
        raw['locals'] = list(src['locals'])
        raw['blocks'] = [dict(b) if not b.get('cleanup') else b for b in src['blocks']]
        raw['inlined'] = []
        if len(stack) < MAX_DEPTH:
            self._inline_calls(raw, stack + (bid,))
            self._inline_polls(raw, stack + (bid,))
        self.cache[bid] = raw
        return raw

    def _splice(self, raw, g, env=None):
        """append g's locals and blocks to raw; returns (local base, block base)"""
        lb = len(raw['locals'])
        bb = len(raw['blocks'])
        raw['locals'].extend(g['locals'])
        for blk in g['blocks']:
            if blk.get('cleanup'):
                raw['blocks'].append(blk)
                continue
            raw['blocks'].append({'stmts': [_r_stmt(s, lb, env) for s in blk['stmts']],
                                  'term': _r_term(blk['term'], lb, bb, env)})
        for f_ in g.get('inlined') or []:
            raw['inlined'].append(dict(f_, blocks=[f_['blocks'][0] + bb, f_['blocks'][1] + bb], locals=[f_['locals'][0] + lb, f_['locals'][1] + lb]))
        return lb, bb

    def _big_and_repeated(self, raw, gid, g):
        """a large function (incl. its coroutine) that is called several times from one body stays a function of its own:
        copying it would duplicate every anchor the rules look for (two writers, two temp files, ...)"""
        size = len(g['blocks'])
        cid = self.coroutine_of.get(gid)
        if cid in self.raws:
            size += len(self.raws[cid]['blocks'])
        if size < BIG:
            return False
        n = 0
        for blk in self.raws[raw['id']]['blocks']:
            if not blk.get('cleanup') and blk['term']['k'] == 'call' and (blk['term']['callee'].get('rdef') or blk['term']['callee'].get('def')) == gid:
                n += 1
        return n > 1

    def _inline_calls(self, raw, stack):
        i = 0
        n0 = len(raw['blocks'])
        while i < n0:
            blk = raw['blocks'][i]
            i += 1
            if blk.get('cleanup'):
                continue
            t = blk['term']
            if t['k'] != 'call' or 'q' not in t['callee']:
                continue
            gid = t['callee'].get('rdef') or t['callee'].get('def')
            if t['callee'].get('q') == 'core::future::future::Future::poll':
                continue            # awaits are handled by _inline_polls
            if gid in stack or not self.inlinable(raw, gid):
                if gid in self.raws:
                    self.kept_calls[gid] = self.kept_calls.get(gid, 0) + 1
                continue
            g = self.flat(gid, stack)
            if len(raw['blocks']) + len(g['blocks']) > MAX_BLOCKS or len(t['args']) != g['arg_count'] or self._big_and_repeated(raw, gid, g):
                self.kept_calls[gid] = self.kept_calls.get(gid, 0) + 1
                continue
            lb, bb = self._splice(raw, g)
            stmts = list(blk['stmts'])
            for k, a in enumerate(t['args']):
                stmts.append({'k': 'assign', 'pl': {'l': lb + 1 + k, 'p': []}, 'rv': {'k': 'use', 'op': a}, 'loc': t['loc'], 'exp': True,
                              'inl': 'arg'})
            blk['stmts'] = stmts
            blk['term'] = {'k': 'goto', 't': bb, 'loc': t['loc'], 'exp': t.get('exp', False), 'inlined_call': g['q']}
            # returns of the callee
            for j in range(bb, bb + len(g['blocks'])):
                cb = raw['blocks'][j]
                if cb.get('cleanup') or cb['term']['k'] != 'return':
                    continue
                cb['stmts'] = cb['stmts'] + [{'k': 'assign', 'pl': t['dest'], 'rv': {'k': 'use', 'op': {'k': 'move', 'pl': {'l': lb, 'p': []}}},
                                              'loc': t['loc'], 'exp': True, 'inl': 'ret'}]
                if t['t'] is None:
                    cb['term'] = {'k': 'unreachable', 'loc': t['loc'], 'exp': True}
                else:
                    cb['term'] = {'k': 'goto', 't': t['t'], 'loc': t['loc'], 'exp': True}
            raw['inlined'].append({'callee': g['q'], 'at': t['loc'], 'blocks': [bb, bb + len(g['blocks'])], 'locals': [lb, lb + len(g['locals'])]})
            self.inlined_at[gid] = self.inlined_at.get(gid, 0) + 1

    # ------------------------------------------------------------------ awaits of private async fns
    def _inline_polls(self, raw, stack):
        # coroutine aggregates present in this (already call-inlined) body, by coroutine body id
        n0 = len(raw['blocks'])
        i = 0
        while i < n0:
            blk = raw['blocks'][i]
            i += 1
            if blk.get('cleanup'):
                continue
            t = blk['term']
            if t['k'] != 'call' or t['callee'].get('q') != 'core::future::future::Future::poll':
                continue
            cid = t['callee'].get('rdef')
            c = self.raws.get(cid)
            if c is None or not c.get('coroutine') or cid in stack:
                continue
            shell = c.get('parent')
            if shell not in self.raws or self.coroutine_of.get(shell) != cid or not self.inlinable(raw, shell):
                continue
            agg = self._find_coroutine_agg(raw, t['args'][0], cid)
            if agg is not None and agg.get('_from_shell_call') is False:
                agg = None
            if agg is None:
                self.kept_calls[cid] = self.kept_calls.get(cid, 0) + 1
                continue
            g = self.flat(cid, stack)
            if len(raw['blocks']) + len(g['blocks']) > MAX_BLOCKS:
                self.kept_calls[cid] = self.kept_calls.get(cid, 0) + 1
                continue
            env = [o['pl'] if o.get('k') in ('copy', 'move') else None for o in agg['ops']]
            lb, bb = self._splice(raw, g, env)
            stmts = list(blk['stmts'])
            if len(t['args']) > 1:
                stmts.append({'k': 'assign', 'pl': {'l': lb + 2, 'p': []}, 'rv': {'k': 'use', 'op': t['args'][1]}, 'loc': t['loc'], 'exp': True, 'inl': 'arg'})
            blk['stmts'] = stmts
            blk['term'] = {'k': 'goto', 't': bb, 'loc': t['loc'], 'exp': True, 'inlined_call': g['q']}
            ready_ty = t.get('dest_ty')
            for j in range(bb, bb + len(g['blocks'])):
                cb = raw['blocks'][j]
                if cb.get('cleanup') or cb['term']['k'] != 'return':
                    continue
                cb['stmts'] = cb['stmts'] + [{'k': 'assign', 'pl': t['dest'],
                                              'rv': {'k': 'agg', 'ak': 'adt', 'adt': 'core::task::poll::Poll', 'vname': 'Ready', 'variant': 0,
                                                     'fields': ['0'], 'ops': [{'k': 'move', 'pl': {'l': lb, 'p': []}}]},
                                              'loc': t['loc'], 'exp': True, 'inl': 'ret'}]
                cb['term'] = {'k': 'goto', 't': t['t'], 'loc': t['loc'], 'exp': True} if t['t'] is not None else {'k': 'unreachable', 'loc': t['loc'], 'exp': True}
            # the dispatch on Ready / Pending after the poll: only Ready can arrive now
            if t['t'] is not None:
                nb = raw['blocks'][t['t']]
                sw = nb['term']
                if sw['k'] == 'switch' and 0 in sw['vals']:
                    nb['term'] = {'k': 'goto', 't': sw['targets'][sw['vals'].index(0)], 'loc': sw['loc'], 'exp': True, 'was_poll_dispatch': True}
            raw['inlined'].append({'callee': g['q'], 'at': t['loc'], 'blocks': [bb, bb + len(g['blocks'])], 'locals': [lb, lb + len(g['locals'])], 'await': True})
            self.inlined_at[cid] = self.inlined_at.get(cid, 0) + 1

    def _find_coroutine_agg(self, raw, op, cid):
        """follow the pinned future back to the statement that built the coroutine (a unique creation site of that coroutine
        reachable through moves / borrows / into_future / Pin::new*)"""
        defs = {}
        for blk in raw['blocks']:
            if blk.get('cleanup'):
                continue
            for st in blk['stmts']:
                if st['k'] == 'assign' and not st['pl']['p']:
                    defs.setdefault(st['pl']['l'], []).append(('assign', st))
            t = blk['term']
            if t['k'] == 'call' and not t['dest']['p']:
                defs.setdefault(t['dest']['l'], []).append(('call', t))
        seen = set()
        cur = op
        for _ in range(24):
            if cur.get('k') not in ('copy', 'move'):
                return None
            l = cur['pl']['l']
            if l in seen:
                return None
            seen.add(l)
            ds = defs.get(l, [])
            if len(ds) != 1:
                return None
            kind, node = ds[0]
            if kind == 'assign':
                rv = node['rv']
                if rv['k'] == 'agg' and rv.get('ak') == 'coroutine':
                    return rv if rv.get('body') == cid else None
                if rv['k'] == 'use':
                    cur = rv['op']
                    continue
                if rv['k'] in ('ref', 'rawptr'):
                    cur = {'k': 'copy', 'pl': rv['pl']}
                    continue
                return None
            q = node['callee'].get('q', '')
            if q in ('core::future::into_future::IntoFuture::into_future', 'core::pin::Pin::new_unchecked', 'core::pin::Pin::new') and node['args']:
                cur = node['args'][0]
                continue
            return None
        return None

    def absorbed(self):
        """helpers that are inlined wherever they are used and therefore not analysed on their own"""
        out = set()
        for gid, n in self.inlined_at.items():
            if n > 0 and not self.kept_calls.get(gid) and gid not in self.fn_values:
                out.add(gid)
        # the coroutine of an absorbed async shell goes with it (and vice versa only if it was inlined itself)
        for shell, cid in self.coroutine_of.items():
            if shell in out and cid not in out:
                out.discard(shell)
            if cid in out and shell not in out:
                out.discard(cid)
        return out


def _ops(rv):
    k = rv['k']
    if k in ('use', 'cast', 'repeat'):
        yield rv['op']
    elif k == 'binop':
        yield rv['a']
        yield rv['b']
    elif k == 'unop':
        yield rv['a']
    elif k == 'agg':
        for o in rv['ops']:
            yield o


def keep_predicate(rule_sources):
    """a private function stays a call while some rule still names it (its last path segment, or Type::method)"""
    text = rule_sources

    def keep(raw):
        q = raw['q']
        segs = [s for s in q.split('::') if not s.startswith('{')]
        if not segs:
            return True
        last = segs[-1]
        cands = {last}
        if len(segs) >= 2:
            cands.add(segs[-2] + '::' + last)
        for c in cands:
            if re.search(r'(?<![A-Za-z0-9_])' + re.escape(c) + r'(?![A-Za-z0-9_])', text):
                return True
        return False
    return keep
