"""E2: path / type-state engine.

A rule supplies
  init            : initial rule state (hashable)
  on_stmt(b, bi, st, state)            -> state
  on_term(b, bi, term, state)          -> state | [(succ, state)]   (edge-sensitive when a list)
  on_exit(b, bi, state, outcome)       -> None   (called at every `return`)
The engine adds the function outcome (last assignment to `_0`) and explores the
non-cleanup CFG with sets of states per block (finite: rule states must be small).
"""
import collections
from .facts import succs, callee_q

RESULT = 'core::result::Result'


def outcome_after_stmt(b, st, outcome):
    if st['k'] == 'assign' and not st['pl']['p'] and st['pl']['l'] == 0:
        rv = st['rv']
        if rv['k'] == 'agg' and rv.get('adt') == RESULT:
            return rv['vname']
        return 'Unknown'
    return outcome


def outcome_after_term(b, t, outcome):
    if t['k'] == 'call' and not t['dest']['p'] and t['dest']['l'] == 0:
        if 'q' in t['callee'] and callee_q(t).endswith('FromResidual>::from_residual'):
            return 'Err'
        return 'Unknown'
    return outcome


class Explorer:
    def __init__(self, body, rule, max_states=200000):
        self.b = body
        self.rule = rule
        self.max_states = max_states
        self.visited = 0

    def run(self):
        b = self.b
        IN = collections.defaultdict(set)
        start = (self.rule.init, 'Unassigned')
        IN[0].add(start)
        work = collections.deque([0])
        queued = {0}
        while work:
            bi = work.popleft()
            queued.discard(bi)
            blk = b.blocks[bi]
            if blk.get('cleanup'):
                continue
            out_edges = collections.defaultdict(set)
            t = blk['term']
            for (rs, oc) in list(IN[bi]):
                self.visited += 1
                for st in blk['stmts']:
                    rs = self.rule.on_stmt(b, bi, st, rs)
                    oc = outcome_after_stmt(b, st, oc)
                if t['k'] == 'return':
                    self.rule.on_exit(b, bi, rs, oc)
                    continue
                oc2 = outcome_after_term(b, t, oc)
                self.rule.cur_outcome = oc
                r = self.rule.on_term(b, bi, t, rs)
                if isinstance(r, list):
                    for s2, rs2 in r:
                        out_edges[s2].add((rs2, oc2))
                else:
                    for s2 in succs(t):
                        out_edges[s2].add((r, oc2))
            for s2, states in out_edges.items():
                if b.blocks[s2].get('cleanup'):
                    continue
                if not states <= IN[s2]:
                    IN[s2] |= states
                    if s2 not in queued:
                        queued.add(s2)
                        work.append(s2)
            if self.visited > self.max_states:
                raise RuntimeError('state explosion in ' + b.q)
        self.IN = IN
        return IN


class Rule:
    init = None

    def on_stmt(self, b, bi, st, state):
        return state

    def on_term(self, b, bi, t, state):
        return state

    def on_exit(self, b, bi, state, outcome):
        pass


def switch_edges(t):
    """[(value or None for otherwise, target)]"""
    return list(zip(t['vals'], t['targets'])) + [(None, t['otherwise'])]
