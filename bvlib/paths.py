"""E2: path / type-state engine.

A rule supplies
  init            : initial rule state (hashable)
  on_stmt(b, bi, st, state)            -> state
  on_term(b, bi, term, state)          -> state | [(succ, state)]   (edge-sensitive when a list)
  on_exit(b, bi, state, outcome)       -> None   (called at every `return`)
The engine adds the function outcome (last assignment to `_0`) and explores the
non-cleanup CFG with sets of states per block (finite: rule states must be small).
"""
import collections
from .facts import succs, callee_q

RESULT = 'core::result::Result'


def outcome_after_stmt(b, st, outcome, ret_local=0):
    if st['k'] == 'assign' and not st['pl']['p'] and st['pl']['l'] == ret_local:
        rv = st['rv']
        if rv['k'] == 'agg' and rv.get('adt') == RESULT:
            return rv['vname']
        if st.get('inl') == 'ret':
            return outcome
        return 'Unknown'
    return outcome


def outcome_after_term(b, t, outcome, ret_local=0):
    if t['k'] == 'call' and not t['dest']['p'] and t['dest']['l'] == ret_local:
        if 'q' in t['callee'] and callee_q(t).endswith('FromResidual>::from_residual'):
            return 'Err'
        return 'Unknown'
    return outcome


TRY_BRANCH = 'core::ops::try_trait::Try::branch'
BRANCH_OF = {'Ok': ('Continue', 0), 'Err': ('Break', 1), 'Some': ('Continue', 0), 'None': ('Break', 1)}


class Frames:
    """inlined regions of a flattened body: block -> (depth, return local of the innermost frame)"""
    def __init__(self, b):
        self.depth = {}
        self.ret = {}
        frames = sorted(b.raw.get('inlined') or [], key=lambda f_: (f_['blocks'][0], -f_['blocks'][1]))
        for f_ in frames:
            for bi in range(f_['blocks'][0], f_['blocks'][1]):
                self.depth[bi] = self.depth.get(bi, 0) + 1
                self.ret[bi] = f_['locals'][0]

    def d(self, bi):
        return self.depth.get(bi, 0)

    def r(self, bi):
        return self.ret.get(bi, 0)


def _known_from_outcome(b, local, oc):
    """variant of a frame's return value known from the frame outcome (assigned by from_residual => the error variant)"""
    adt = b.lty(local).get('adt')
    if adt == RESULT:
        if oc == 'Err':
            return ('v', 'Err', 1, None)
        if oc == 'Ok':
            return ('v', 'Ok', 0, None)
    if adt == 'core::option::Option' and oc == 'Err':
        return ('v', 'None', 0, None)
    return None


def env_after_stmt(b, st, env, oc=None):
    """constant propagation of enum variants through whole-local moves and single-payload wrappers:
    env = ((local, value), ...); value ('v', variant name, index, payload value | None) or ('d', discriminant)"""
    k = st['k']
    if k == 'dead':
        if env and any(l == st['l'] for l, _ in env):
            return tuple(x for x in env if x[0] != st['l'])
        return env
    if k != 'assign' or st['pl']['p']:
        return env
    dst, rv = st['pl']['l'], st['rv']
    val = None
    d = None
    if rv['k'] == 'use' and rv['op']['k'] == 'const' and 'int' in rv['op'] and b.lty(dst).get('k') == 'bool':
        val = ('c', bool(rv['op']['int']))
    elif rv['k'] == 'use' and rv['op']['k'] == 'const' and b.lty(dst).get('adt') in b.f.adts and isinstance(rv['op'].get('s'), str):
        # a fieldless variant of a crate-local enum written as a constant
        names = [v_['n'] for v_ in b.f.adts[b.lty(dst)['adt']]['variants']]
        vn = rv['op']['s'].split('::')[-1]
        if vn in names and len(names) > 1:
            val = ('v', vn, names.index(vn), None)
    elif rv['k'] == 'use' and rv['op']['k'] == 'const' and rv['op'].get('pvname') is not None:
        # a promoted `&Enum::Variant` (the right-hand side of `kind == Enum::Variant`)
        val = ('rv', ('v', rv['op']['pvname'], rv['op']['pvariant'], None))
    elif rv['k'] == 'ref' and not rv.get('mut'):
        pl = rv['pl']
        if not pl['p']:
            val = ('r', pl['l'])
        elif len(pl['p']) == 1 and pl['p'][0].get('k') == 'deref':
            val = dict(env).get(pl['l'])              # a reborrow of a known reference
            if val is not None and val[0] not in ('r', 'rv'):
                val = None
    elif rv['k'] == 'agg' and rv.get('ak') == 'adt' and 'variant' in rv:
        payload = None
        if len(rv['ops']) == 1 and rv['ops'][0]['k'] == 'const' and 'int' in rv['ops'][0] and rv['ops'][0].get('s') in ('true', 'false'):
            payload = ('c', rv['ops'][0]['s'] == 'true')
        if len(rv['ops']) == 1 and rv['ops'][0]['k'] in ('copy', 'move') and not rv['ops'][0]['pl']['p']:
            d = dict(env)
            src = rv['ops'][0]['pl']['l']
            payload = d.get(src)
            if payload is None and st.get('inl') == 'ret':
                payload = _known_from_outcome(b, src, oc)
            if payload is not None and payload[0] not in ('v', 'c'):
                payload = None
        val = ('v', rv['vname'], rv['variant'], payload)
    elif rv['k'] == 'use' and rv['op']['k'] in ('copy', 'move'):
        pl = rv['op']['pl']
        if not pl['p']:
            val = dict(env).get(pl['l'])
            if val is None and st.get('inl') == 'ret':
                val = _known_from_outcome(b, pl['l'], oc)
        elif len(pl['p']) == 2 and pl['p'][0]['k'] == 'downcast' and pl['p'][1]['k'] == 'field':
            known = dict(env).get(pl['l'])
            if known and known[0] == 'v' and known[1] == pl['p'][0].get('n') and known[3] is not None:
                val = known[3]
    elif rv['k'] == 'discr' and not rv['pl']['p']:
        known = dict(env).get(rv['pl']['l'])
        if known and known[0] == 'v':
            val = ('d', known[2])
    elif rv['k'] == 'unop' and rv['op'] == 'Not' and rv['a']['k'] in ('copy', 'move') and not rv['a']['pl']['p']:
        known = dict(env).get(rv['a']['pl']['l'])
        if known and known[0] == 'c':
            val = ('c', not known[1])
    if val is None and not any(l == dst for l, _ in env):
        return env
    e = [x for x in env if x[0] != dst]
    if val is not None:
        e.append((dst, val))
    if len(e) > 16:
        # keep what the user named (flags that are tested much later) before compiler temporaries
        e.sort(key=lambda x: (0 if b.locals[x[0]].get('user') else 1, x[0]))
        e = e[:16]
    return tuple(sorted(e))


def _env_set(b, env, dst, val):
    e = [x for x in env if x[0] != dst]
    e.append((dst, val))
    if len(e) > 16:
        e.sort(key=lambda x: (0 if b.locals[x[0]].get('user') or x[0] == dst else 1, x[0]))
        e = e[:16]
    return tuple(sorted(e))


def _deref_value(env_d, val, depth=0):
    """the known value behind a reference value"""
    while val is not None and depth < 4:
        if val[0] == 'r':
            val = env_d.get(val[1])
        elif val[0] == 'rv':
            val = val[1]
        else:
            return val
        depth += 1
    return None


def _fieldless(b, adt):
    a = b.f.adts.get(adt)
    return bool(a) and len(a['variants']) > 1 and all(not v_['fields'] for v_ in a['variants'])


def env_after_call(b, t, env):
    if t['dest']['p']:
        return env
    dst = t['dest']['l']
    val = None
    if 'q' in t['callee'] and t['callee']['q'] == TRY_BRANCH and t['args'] and t['args'][0]['k'] in ('copy', 'move') \
            and not t['args'][0]['pl']['p']:
        known = dict(env).get(t['args'][0]['pl']['l'])
        if known and known[0] == 'v' and known[1] in BRANCH_OF:
            n, i = BRANCH_OF[known[1]]
            val = ('v', n, i, known[3] if len(known) > 3 else None)
    if val is None and 'q' in t['callee'] and t['callee']['q'] in ('core::cmp::PartialEq::eq', 'core::cmp::PartialEq::ne') and len(t['args']) == 2 \
            and all(a['k'] in ('copy', 'move') and not a['pl']['p'] for a in t['args']):
        # the derived comparison of two known values of a fieldless crate-local enum
        q = callee_q(t)
        adt = q[1:].split(' as ')[0] if q.startswith('<') else None
        gid = t['callee'].get('rdef') or t['callee'].get('def')
        derived = gid in b.f.original and b.f.original[gid].generated
        if adt and derived and _fieldless(b, adt):
            d = dict(env)
            va = _deref_value(d, d.get(t['args'][0]['pl']['l']))
            vb = _deref_value(d, d.get(t['args'][1]['pl']['l']))
            if va and vb and va[0] == 'v' and vb[0] == 'v':
                same = va[2] == vb[2]
                val = ('c', same if t['callee']['q'].endswith('::eq') else not same)
    if val is None and not any(l == dst for l, _ in env):
        return env
    e = [x for x in env if x[0] != dst]
    if val is not None:
        e.append((dst, val))
    return tuple(sorted(e))


def feasible_succs(t, env):
    """successors of a switch that the known discriminants allow (all of them if nothing is known)"""
    if t['k'] == 'switch' and env and t['op']['k'] in ('copy', 'move') and not t['op']['pl']['p']:
        known = dict(env).get(t['op']['pl']['l'])
        if known and known[0] == 'd':
            return [dict(zip(t['vals'], t['targets'])).get(known[1], t['otherwise'])]
        if known and known[0] == 'c':
            return [dict(zip(t['vals'], t['targets'])).get(int(known[1]), t['otherwise'])]
    return None


def _refine_bool_edges(b, bi, t, edges):
    """a branch on a named boolean variable fixes its value on each side: a later test of the same variable follows the same
    side (`if is_block_dev { check size } .. if !is_block_dev { resize }` are not independent)"""
    op = t['op']
    if op['k'] not in ('copy', 'move') or op['pl']['p'] or t['vals'] != [0] or b.lty(op['pl']['l']).get('k') != 'bool':
        return edges
    l = op['pl']['l']
    src, neg = None, False
    for st in reversed(b.blocks[bi]['stmts']):
        if st['k'] == 'assign' and not st['pl']['p'] and st['pl']['l'] == l:
            rv = st['rv']
            o = rv.get('op') if rv['k'] == 'use' else rv.get('a') if (rv['k'] == 'unop' and rv['op'] == 'Not') else None
            if isinstance(o, dict) and o.get('k') in ('copy', 'move') and not o['pl']['p']:
                src, neg = o['pl']['l'], rv['k'] == 'unop'
            break
    names = [x for x in (l, src) if x is not None and b.locals[x].get('user') and b.locals[x].get('name')]
    if not names or t['targets'][0] == t['otherwise']:
        return edges
    out = []
    for s2, rs2, e2 in edges:
        val = s2 != t['targets'][0]
        for x in names:
            e2 = _env_set(b, e2, x, ('c', (not val) if (x == src and neg) else val))
        out.append((s2, rs2, e2))
    return out


class Explorer:
    def __init__(self, body, rule, max_states=400000, start=0):
        self.b = body
        self.rule = rule
        self.max_states = max_states
        self.visited = 0
        self.start = start
        self.frames = Frames(body)

    def run(self):
        b = self.b
        fr = self.frames
        FULL = collections.defaultdict(set)          # block -> {(rule state, outcome stack, env)}
        self.edges = set()                           # CFG edges some state actually took (infeasible `?` dispatches pruned)
        start = (self.rule.init, ('Unassigned',) * (fr.d(self.start) + 1), ())
        FULL[self.start].add(start)
        work = collections.deque([(self.start, start)])     # only states that are new at a block are (re)processed
        fork_stmt = getattr(self.rule, 'fork_stmt', None)
        fork_call = getattr(self.rule, 'fork_call', None)
        while work:
            bi, (rs, ocs, env) = work.popleft()
            blk = b.blocks[bi]
            if blk.get('cleanup'):
                continue
            t = blk['term']
            rl = fr.r(bi)
            dep = fr.d(bi)
            self.visited += 1
            if self.visited > self.max_states:
                raise RuntimeError('state explosion in ' + b.q)
            pend = [(rs, env, ocs[-1])]
            for st in blk['stmts']:
                nxt = []
                for rs, env, oc in pend:
                    rs = self.rule.on_stmt(b, bi, st, rs)
                    env = env_after_stmt(b, st, env, oc)
                    oc = outcome_after_stmt(b, st, oc, rl)
                    if oc == 'Unknown' and env and st['k'] == 'assign' and not st['pl']['p'] and st['pl']['l'] == rl:
                        known = dict(env).get(rl)
                        if known and known[0] == 'v' and known[1] in ('Ok', 'Err'):
                            oc = known[1]
                    forks = fork_stmt(b, bi, st, rs) if fork_stmt else None
                    if forks:
                        # the rule splits on the value of the boolean this statement computes (the origin of a guard): from
                        # here on the value is a known constant and whatever is derived from it is decided by the environment
                        for val, rs2 in forks:
                            nxt.append((rs2, _env_set(b, env, st['pl']['l'], ('c', bool(val))), oc))
                    else:
                        nxt.append((rs, env, oc))
                pend = nxt
            for rs, env, oc in pend:
                self._leave(b, bi, t, rs, env, oc, ocs, rl, dep, FULL, work, fork_call)
        return self._finish(FULL)

    def _leave(self, b, bi, t, rs, env, oc, ocs, rl, dep, FULL, work, fork_call):
        fr = self.frames
        if t['k'] == 'return':
            self.rule.on_exit(b, bi, rs, oc)
            return
        oc2 = outcome_after_term(b, t, oc, rl)
        self.rule.cur_outcome = oc
        r = self.rule.on_term(b, bi, t, rs)
        env2 = env_after_call(b, t, env) if t['k'] == 'call' else env
        only = feasible_succs(t, env)
        ocs2 = ocs[:-1] + (oc2,)
        if isinstance(r, list):
            edges = [(s2, rs2, env2) for s2, rs2 in r if only is None or s2 in only]
        else:
            edges = [(s2, r, env2) for s2 in (succs(t) if only is None else only)]
        if t['k'] == 'switch' and only is None:
            edges = _refine_bool_edges(b, bi, t, edges)
        if fork_call and t['k'] == 'call' and not t['dest']['p'] and not isinstance(r, list):
            forks = fork_call(b, bi, t, r)
            if forks and t.get('t') is not None:
                edges = [(t['t'], rs2, _env_set(b, env2, t['dest']['l'], ('c', bool(val)))) for val, rs2 in forks]
        for s2, rs2, e2 in edges:
            if b.blocks[s2].get('cleanup'):
                continue
            d2 = fr.d(s2)
            if d2 > dep:
                st2 = ocs2 + ('Unassigned',) * (d2 - dep)
            elif d2 < dep:
                st2 = ocs2[:len(ocs2) - (dep - d2)] or ('Unassigned',)
                # a helper whose result is the caller's own return value (`_0 = helper(..)`): what the helper returned is what
                # the caller returns
                last = b.blocks[bi]['stmts'][-1] if b.blocks[bi]['stmts'] else None
                if last is not None and last.get('inl') == 'ret' and last['k'] == 'assign' and not last['pl']['p'] and last['pl']['l'] == fr.r(s2) \
                        and dep - d2 == 1:
                    st2 = st2[:-1] + (oc2 if oc2 in ('Ok', 'Err') else 'Unknown',)
            else:
                st2 = ocs2
            self.edges.add((bi, s2))
            ns = (rs2, st2, e2)
            if ns not in FULL[s2]:
                FULL[s2].add(ns)
                work.append((s2, ns))

    def _finish(self, FULL):
        IN = collections.defaultdict(set)
        for bi, sts in FULL.items():
            for (rs, ocs, env) in sts:
                IN[bi].add((rs, ocs[-1]))
        self.IN = IN
        return IN


class Rule:
    init = None

    def on_stmt(self, b, bi, st, state):
        return state

    def on_term(self, b, bi, t, state):
        return state

    def on_exit(self, b, bi, state, outcome):
        pass


def switch_edges(t):
    """[(value or None for otherwise, target)]"""
    return list(zip(t['vals'], t['targets'])) + [(None, t['otherwise'])]
