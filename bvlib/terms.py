"""E3: provenance terms.  term(body, operand) -> nested tuples, normalised so that two
implementations computing the same thing from the same sources yield equal terms."""
from .facts import callee_q

MAXD = 40
TRANSPARENT_CALLS = (
    'core::ops::deref::Deref::deref', 'core::ops::deref::DerefMut::deref_mut', 'core::convert::AsRef::as_ref',
    'core::borrow::Borrow::borrow', 'core::convert::Into::into', 'core::convert::From::from',
    'core::iter::traits::collect::IntoIterator::into_iter', 'core::future::into_future::IntoFuture::into_future',
    'core::pin::Pin::new_unchecked', 'core::pin::Pin::new', 'core::clone::Clone::clone', 'core::hint::must_use',
    'alloc::borrow::ToOwned::to_owned',
)


class Terms:
    def __init__(self, facts):
        self.f = facts
        self._parent_site = None

    def frame_rets(self, b):
        if not hasattr(self, '_frets'):
            self._frets = {}
        if b.id not in self._frets:
            self._frets[b.id] = {f_['locals'][0] for f_ in (b.raw.get('inlined') or [])}
        return self._frets[b.id]

    # closure body id -> (parent body, aggregate ops)
    def parent_sites(self):
        if self._parent_site is None:
            m = {}
            for b in self.f.bodies.values():
                for bi in b.live:
                    for st in b.blocks[bi]['stmts']:
                        if st['k'] == 'assign' and st['rv']['k'] == 'agg' and st['rv']['ak'] in ('closure', 'coroutine', 'coroutine_closure'):
                            m[st['rv']['body']] = (b, st['rv']['ops'], bi)
            self._parent_site = m
        return self._parent_site

    def of_operand(self, b, op, d=0):
        if op['k'] == 'const':
            if 'fn' in op:
                return ('fn', op['fnq'])
            return ('const', op.get('int', op.get('s')))
        if op['k'] in ('copy', 'move'):
            return self.of_place(b, op['pl'], d)
        return ('?',)

    def of_place(self, b, pl, d=0):
        base = self.of_local(b, pl['l'], d)
        for p in pl['p']:
            k = p['k']
            if k == 'deref':
                continue
            if k == 'field':
                n = p.get('n')
                if n is None:
                    n = p['i']
                base = self.field(base, n)
            elif k == 'downcast':
                base = ('variant', p.get('n'), base)
            elif k in ('index', 'constindex', 'subslice'):
                base = ('elem', base)
        return base

    def field(self, base, n):
        # field of an aggregate term: project
        if base[0] == 'agg' and n in base[3]:
            return base[3][n]
        if base[0] == 'tuple' and isinstance(n, int) and n < len(base[1]):
            return base[1][n]
        # (x as Some).0 of a call result etc: keep
        return ('field', base, n)

    def of_local(self, b, l, d=0):
        if d > MAXD:
            return ('deep', b.name(l))
        name = b.locals[l]['name']
        kind = b.raw['kind']
        if l == 0:
            return ('ret',)
        if 1 <= l <= b.arg_count:
            if kind == 'Closure' and l == 1:
                return ('env', b.id)
            if kind == 'Closure' and not b.raw['coroutine']:
                return ('cparam', b.id, l - 2, name)
            if b.raw['coroutine']:
                return ('resume',)
            return ('param', b.q, l - 1, name)
        ds = b.defs().get(l, [])
        whole = [x for x in ds if x[0] != 'assign' or not x[1]['pl']['p']]
        if len(whole) == 1 and len(ds) == 1:
            dd = whole[0]
            if dd[0] == 'assign':
                return self.of_rvalue(b, dd[1]['rv'], d + 1)
            if dd[0] == 'call':
                return self.of_call(b, dd[1], d + 1)
            if dd[0] == 'yield':
                return ('resume',)
        if not ds:
            return ('undef', b.name(l))
        # the return place of an inlined helper is assigned once per way out of the helper: keep all of them, so that
        # "the value comes from a seek / a digest / a call of X" is still visible behind the helper's `?` paths
        if l in self.frame_rets(b) and len(ds) <= 14 and d < MAXD - 8:
            alts = []
            for dd in ds:
                if dd[0] == 'assign' and not dd[1]['pl']['p']:
                    alts.append(self.of_rvalue(b, dd[1]['rv'], d + 4))
                elif dd[0] == 'call':
                    alts.append(self.of_call(b, dd[1], d + 4))
            if alts:
                return ('phi', alts)
        # several definitions: a mutable variable / accumulator / phi
        return ('var', b.id, b.name(l))

    def of_rvalue(self, b, rv, d):
        k = rv['k']
        if k == 'use':
            return self.of_operand(b, rv['op'], d)
        if k in ('ref', 'rawptr'):
            return self.of_place(b, rv['pl'], d)
        if k == 'cast':
            inner = self.of_operand(b, rv['op'], d)
            if rv['ck'].startswith('IntToInt'):
                return ('cast', b.ty(rv['ty'])['s'], inner)
            return inner
        if k == 'binop':
            return ('binop', rv['op'].replace('WithOverflow', ''), self.of_operand(b, rv['a'], d), self.of_operand(b, rv['b'], d))
        if k == 'unop':
            return ('unop', rv['op'], self.of_operand(b, rv['a'], d))
        if k == 'discr':
            return ('discr', self.of_place(b, rv['pl'], d))
        if k == 'agg':
            ops = [self.of_operand(b, o, d) for o in rv['ops']]
            if rv['ak'] == 'adt':
                return ('agg', rv['adt'], rv['vname'], dict(zip(rv['fields'], ops)))
            if rv['ak'] == 'tuple':
                return ('tuple', ops)
            if rv['ak'] in ('closure', 'coroutine', 'coroutine_closure'):
                return ('closure', rv['body'])
            return ('array', ops)
        if k == 'repeat':
            return ('repeat', self.of_operand(b, rv['op'], d))
        return ('?', k)

    def of_call(self, b, t, d):
        if 'q' not in t['callee']:
            return ('icall',)
        q = callee_q(t)
        gq = t['callee']['q']
        args = [self.of_operand(b, a, d) for a in t['args']]
        if gq in TRANSPARENT_CALLS or q in TRANSPARENT_CALLS:
            return args[0] if args else ('?',)
        # binop(AddWithOverflow).0 handled by field(); Future::poll(fut) -> await(fut)
        if gq == 'core::future::future::Future::poll':
            return ('await', args[0])
        if gq == 'core::ops::try_trait::Try::branch':
            return ('try', args[0])
        return ('call', q, args)

    # ---- resolve closure environment fields to the parent's terms
    def resolve_env(self, term, d=0):
        """rewrite ('field', ('env', closure), i) into the captured parent's term"""
        if not isinstance(term, tuple) or d > 6:
            return term
        if term[0] == 'field' and isinstance(term[1], tuple) and term[1][0] == 'env':
            site = self.parent_sites().get(term[1][1])
            if site and isinstance(term[2], int) and term[2] < len(site[1]):
                pb, ops, _ = site
                return self.resolve_env(self.of_operand(pb, ops[term[2]]), d + 1)
        if term[0] == 'agg':
            return ('agg', term[1], term[2], {k: self.resolve_env(v, d) for k, v in term[3].items()})
        return tuple(self.resolve_env(x, d) if isinstance(x, tuple) else
                     ([self.resolve_env(y, d) for y in x] if isinstance(x, list) else x) for x in term)


def simplify(t):
    """peel wrappers that do not change the value: try/await of Ok payloads, Continue/Ready/Some payload fields"""
    if not isinstance(t, tuple):
        return t
    if t[0] == 'field' and isinstance(t[1], tuple) and t[1][0] == 'variant' and t[1][1] in ('Continue', 'Ready', 'Some', 'Ok') and t[2] == 0:
        return simplify(t[1][2])
    if t[0] in ('try', 'await') :
        return (t[0], simplify(t[1]))
    if t[0] == 'field' and isinstance(t[1], tuple) and t[1][0] == 'binop' and t[2] == 0:
        return simplify(t[1])
    if t[0] == 'agg':
        return ('agg', t[1], t[2], {k: simplify(v) for k, v in t[3].items()})
    return tuple(simplify(x) if isinstance(x, tuple) else ([simplify(y) for y in x] if isinstance(x, list) else x) for x in t)


def show(t, depth=0):
    if not isinstance(t, tuple):
        return str(t)
    k = t[0]
    if k == 'const': return str(t[1])
    if k == 'fn': return 'fn ' + t[1].split('::')[-1]
    if k == 'param': return 'param:' + str(t[3] or t[2])
    if k == 'cparam': return 'cparam%d:%s' % (t[2], t[3])
    if k == 'var': return 'var:' + t[2]
    if k == 'env': return 'env'
    if k == 'ret': return 'ret'
    if k == 'resume': return 'resume'
    if k == 'field': return show(t[1]) + '.' + str(t[2])
    if k == 'variant': return '(' + show(t[2]) + ' as ' + str(t[1]) + ')'
    if k == 'elem': return show(t[1]) + '[]'
    if k == 'cast': return show(t[2]) + ' as ' + t[1]
    if k == 'binop': return '(' + show(t[2]) + ' ' + t[1] + ' ' + show(t[3]) + ')'
    if k == 'unop': return t[1] + '(' + show(t[2]) + ')'
    if k == 'call': return t[1].split('::')[-2] + '::' + t[1].split('::')[-1] + '(' + ', '.join(show(a) for a in t[2]) + ')' if '::' in t[1] else t[1]
    if k in ('try', 'await', 'discr', 'repeat'): return k + '(' + show(t[1]) + ')'
    if k == 'agg': return t[1].split('::')[-1] + '::' + t[2] + '{' + ', '.join(f'{a}: {show(v)}' for a, v in t[3].items()) + '}'
    if k == 'tuple': return '(' + ', '.join(show(x) for x in t[1]) + ')'
    if k == 'closure': return 'closure<' + t[1].split('::', 1)[-1] + '>'
    if k == 'phi': return 'phi(' + ' | '.join(show(x) for x in t[1]) + ')'
    return str(t)


def walk(t):
    if isinstance(t, tuple):
        yield t
        for x in t:
            if isinstance(x, tuple):
                yield from walk(x)
            elif isinstance(x, list):
                for y in x:
                    yield from walk(y)
            elif isinstance(x, dict):
                for y in x.values():
                    yield from walk(y)


def has_call(t, q):
    """does the term contain a call whose qualified name equals / ends with q"""
    for n in walk(t):
        if n[0] == 'call' and (n[1] == q or n[1].endswith(q)):
            return True
    return False


def var_alternatives(T, b, t, limit=6):
    """the terms a variable that is assigned on several paths (`let x = if c { A } else { B }`) can stand for; [] for none"""
    out = []
    for n in walk(t):
        if n[0] != 'var':
            continue
        for l, lc in enumerate(b.locals):
            if lc.get('name') == n[-1] and 1 < len(b.defs().get(l, [])) <= limit:
                for d in b.defs()[l]:
                    if d[0] == 'assign':
                        out.append(simplify(T.of_rvalue(b, d[1]['rv'], 0)))
                    elif d[0] == 'call':
                        out.append(simplify(T.of_call(b, d[1], 0)))
    return out


def has_call_deep(T, b, t, q):
    """has_call, looking one level into variables assigned on several paths"""
    return has_call(t, q) or any(has_call(a, q) for a in var_alternatives(T, b, t))


def has_field(t, name):
    for n in walk(t):
        if n[0] == 'field' and n[2] == name:
            return True
    return False


def calls_in(t):
    return [n[1] for n in walk(t) if n[0] == 'call']


def leaves(t):
    out = []
    for n in walk(t):
        if n[0] in ('param', 'cparam', 'var', 'const', 'env', 'undef', 'deep'):
            out.append(n)
    return out


def freeze(t):
    """hashable form"""
    if isinstance(t, tuple):
        return tuple(freeze(x) for x in t)
    if isinstance(t, list):
        return ('#list',) + tuple(freeze(x) for x in t)
    if isinstance(t, dict):
        return ('#dict',) + tuple(sorted((k, freeze(v)) for k, v in t.items()))
    return t
