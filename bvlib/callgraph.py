"""Crate-local call graph over resolved callees, closures and coroutines."""
import collections
from .facts import callee_q, callee_def


class CallGraph:
    def __init__(self, facts):
        self.f = facts
        self.edges = collections.defaultdict(set)      # body id -> body ids
        self.sites = collections.defaultdict(list)     # callee q -> [(body, block, term)]
        self.impls = collections.defaultdict(list)     # trait method q -> local impl bodies
        for g in facts.bodies.values():
            if g.q.startswith('<') and ' as ' in g.q and '>::' in g.q:
                tr = g.q[g.q.index(' as ') + 4:].replace('>::', '::', 1)
                self.impls[tr].append(g.id)
        for b in facts.bodies.values():
            for bi in b.live:
                blk = b.blocks[bi]
                for st in blk['stmts']:
                    if st['k'] == 'assign' and st['rv']['k'] == 'agg' and st['rv']['ak'] in ('closure', 'coroutine', 'coroutine_closure'):
                        if st['rv']['body'] in facts.bodies:
                            self.edges[b.id].add(st['rv']['body'])
                    # function items used as values (passed as callbacks)
                    if st['k'] == 'assign':
                        for o in _ops(st['rv']):
                            if o['k'] == 'const' and 'fn' in o and o['fn'] in facts.bodies:
                                self.edges[b.id].add(o['fn'])
                t = blk['term']
                if t['k'] == 'call':
                    c = t['callee']
                    if 'q' in c:
                        self.sites[callee_q(t)].append((b, bi, t))
                        if c['q'] != callee_q(t):
                            self.sites[c['q']].append((b, bi, t))
                        d = callee_def(t)
                        if d in facts.bodies:
                            self.edges[b.id].add(d)
                        elif c['q'] in self.impls:
                            for g in self.impls[c['q']]:
                                self.edges[b.id].add(g)
                    for a in t['args']:
                        if a['k'] == 'const' and 'fn' in a and a['fn'] in facts.bodies:
                            self.edges[b.id].add(a['fn'])

    def _impl_methods_by_adt(self):
        """local ADT id -> bodies that are trait-impl methods with that Self type (callbacks invoked by foreign code)"""
        if not hasattr(self, '_iba'):
            m = collections.defaultdict(list)
            for g in self.f.bodies.values():
                if g.q.startswith('<') and ' as ' in g.q:
                    self_ty = g.q[1:g.q.index(' as ')]
                    m[self_ty].append(g.id)
            self._iba = m
        return self._iba

    def _adts_mentioned(self, b):
        if not hasattr(self, '_adtm'):
            self._adtm = {}
        if b.id not in self._adtm:
            out = set()
            def rec(ty, d=0):
                if ty.get('adt'):
                    out.add(ty['adt'])
                if d < 5:
                    for i in ty.get('args', []):
                        rec(b.ty(i), d + 1)
            for l in range(len(b.locals)):
                rec(b.lty(l))
            for bi in b.live:
                for st in b.blocks[bi]['stmts']:
                    if st['k'] == 'assign' and st['rv']['k'] == 'agg' and st['rv'].get('adt'):
                        out.add(st['rv']['adt'])
            self._adtm[b.id] = out
        return self._adtm[b.id]

    def reachable(self, roots, rta=True):
        """bodies reachable through resolved calls and closures; with rta, also the trait-impl methods of every
        crate-local type mentioned in a reachable body (poll_next, poll_read, fmt, drop ... are called by foreign code)"""
        seen = set()
        w = [r for r in roots if r in self.f.bodies]
        iba = self._impl_methods_by_adt()
        while w:
            x = w.pop()
            if x in seen:
                continue
            seen.add(x)
            w.extend(self.edges[x] - seen)
            if rta:
                for adt in self._adts_mentioned(self.f.bodies[x]):
                    for g in iba.get(adt, ()):
                        if g not in seen:
                            w.append(g)
        return seen

    def calls_to(self, *qs, within=None):
        out = []
        for q in qs:
            for (b, bi, t) in self.sites.get(q, []):
                if within is None or b.id in within:
                    out.append((b, bi, t))
        # dedupe (a site can be registered under q and rq)
        seen = set()
        res = []
        for b, bi, t in out:
            if (b.id, bi) not in seen:
                seen.add((b.id, bi))
                res.append((b, bi, t))
        return res

    def find(self, suffix):
        return [b for b in self.f.bodies.values() if b.q.endswith(suffix)]


def _ops(rv):
    k = rv['k']
    if k in ('use', 'cast', 'repeat'):
        yield rv['op']
    elif k == 'binop':
        yield rv['a']
        yield rv['b']
    elif k == 'unop':
        yield rv['a']
    elif k == 'agg':
        for o in rv['ops']:
            yield o
