"""Type-state analysis of one owned resource (a file handle) through a body, with
interprocedural summaries for crate-local callees (Ok outcomes only)."""
import collections
from .facts import succs, callee_q, callee_def
from .paths import Explorer, Rule


def ty_contains_adt(b, ty, adt, depth=0):
    if ty.get('adt') == adt:
        return True
    if depth > 6:
        return False
    return any(ty_contains_adt(b, b.ty(i), adt, depth + 1) for i in ty.get('args', []))


def contains_adt(b, l, adt):
    return ty_contains_adt(b, b.lty(l), adt)


def coroutine_of(facts, g):
    """async fn body -> (coroutine body id, {param local -> captured field index})"""
    for bi in g.live:
        for st in g.blocks[bi]['stmts']:
            if st['k'] == 'assign' and st['rv']['k'] == 'agg' and st['rv']['ak'] == 'coroutine' \
                    and not st['pl']['p'] and st['pl']['l'] == 0:
                m = {}
                for i, o in enumerate(st['rv']['ops']):
                    if o['k'] in ('copy', 'move') and not o['pl']['p']:
                        m[o['pl']['l']] = i
                return st['rv']['body'], m
    return None, None


def _places(st):
    rv = st['rv']
    k = rv['k']
    if k in ('use', 'cast', 'repeat') and rv['op']['k'] in ('copy', 'move'):
        yield rv['op']['pl']
    if k in ('ref', 'rawptr', 'discr'):
        yield rv['pl']
    if k == 'agg':
        for o in rv['ops']:
            if o['k'] in ('copy', 'move'):
                yield o['pl']


class Spec:
    """Rule-specific part of a type-state analysis."""
    adt = None                 # resource ADT (e.g. tokio::fs::file::File)
    states = ()
    init_state = None          # state at birth
    def event(self, b, t, q, argi):       # API call with the resource as argument argi -> event name | None
        return None
    def delta(self, state, ev):
        return state
    def checkpoint(self, ev):             # events at which (state, location) is recorded
        return False


class _TS(Rule):
    def __init__(self, ts, b, root, init_rstate):
        self.ts = ts
        self.b = b
        self.root = root          # ('local', l) | ('upvar', i)
        self.init = (root, init_rstate)      # (holder, resource state); holder = local or ('upvar', i) or None(moved away)
        self.records = []          # (event, state, loc, outcome?) checkpoints
        self.exits = collections.defaultdict(set)   # outcome -> {(holder, state)}
        self.drops = []            # (state, loc, outcome) resource dropped
        self._oc = {}

    # does operand refer (through refs / fields) to the current holder?
    def canon(self, holder):
        """canonical (base local, field-path prefix) of a holder"""
        if isinstance(holder, tuple):
            return (1, ((None, holder[1]),))
        base = self.b.base_of_place({'l': holder, 'p': []})
        return (base[0], tuple(base[1]))

    def refers(self, op, holder):
        if op['k'] not in ('copy', 'move') or holder is None:
            return False
        base = self.b.base_of(op)
        c = self.canon(holder)
        if base[0] != c[0]:
            return False
        pre = tuple((x[1]) for x in c[1])
        got = tuple((x[1]) for x in base[1][:len(pre)])
        return pre == got

    def holder_is_ref(self, holder):
        b = self.b
        if isinstance(holder, tuple):
            # type of captured field i of the closure/coroutine env: look at a projection using it
            for bi in b.live:
                for st in b.blocks[bi]['stmts']:
                    if st['k'] == 'assign':
                        for pl in _places(st):
                            if pl['l'] == 1 and pl['p'] and pl['p'][0]['k'] == 'field' and pl['p'][0]['i'] == holder[1]:
                                return b.ty(pl['p'][0]['ty']).get('k') in ('ref', 'rawptr')
            return True
        return b.lty(holder).get('k') in ('ref', 'rawptr')

    def moved_whole(self, op, holder):
        """operand moves the owned holder itself (by value); passing a borrowed holder on is not a move"""
        if op['k'] != 'move' or holder is None:
            return False
        if self.holder_is_ref(holder):
            return False
        pl = op['pl']
        if isinstance(holder, tuple):
            return pl['l'] == 1 and [p['k'] for p in pl['p']] == ['field'] and pl['p'][0]['i'] == holder[1]
        return pl['l'] == holder and not pl['p']

    def on_stmt(self, b, bi, st, state):
        holder, rs = state
        if st['k'] == 'assign' and not st['pl']['p']:
            rv = st['rv']
            if rv['k'] == 'use' and self.moved_whole(rv['op'], holder):
                return (st['pl']['l'], rs)
            if rv['k'] == 'use' and holder is not None and self.holder_is_ref(holder) and rv['op']['k'] in ('copy', 'move'):
                pl = rv['op']['pl']
                whole = (pl['l'] == 1 and [p['k'] for p in pl['p']] == ['field'] and pl['p'][0]['i'] == holder[1]) \
                    if isinstance(holder, tuple) else (pl['l'] == holder and not pl['p'])
                if whole and b.lty(st['pl']['l']).get('k') in ('ref', 'rawptr'):
                    return (st['pl']['l'], rs)
            # moved into an aggregate (tuple / struct holding the resource)
            if rv['k'] == 'agg' and any(self.moved_whole(o, holder) for o in rv['ops']):
                if contains_adt(b, st['pl']['l'], self.ts.spec.adt):
                    return (st['pl']['l'], rs)
                return (None, rs)
        return state

    def on_term(self, b, bi, t, state):
        holder, rs = state
        spec = self.ts.spec
        if t['k'] == 'drop':
            pl = t['pl']
            if holder is not None and not isinstance(holder, tuple) and pl['l'] == holder and not pl['p']:
                self.drops.append((rs, t['loc'], getattr(self, 'cur_outcome', '?')))
                return (None, rs)
            return state
        if t['k'] != 'call' or 'q' not in t['callee']:
            return state
        q = callee_q(t)
        gq = t['callee']['q']
        hits = [i for i, a in enumerate(t['args']) if self.refers(a, holder)]
        if not hits:
            return state
        argi = hits[0]
        ev = spec.event(b, t, q, argi) or spec.event(b, t, gq, argi)
        if ev is not None:
            if spec.checkpoint(ev):
                self.records.append((ev, rs, t['loc'], getattr(self, 'cur_outcome', '?')))
            rs = spec.delta(rs, ev)
            if self.moved_whole(t['args'][argi], holder):
                holder = t['dest']['l'] if (not t['dest']['p'] and contains_adt(b, t['dest']['l'], spec.adt)) else None
            elif ev in getattr(spec, 'rebind', ()) and not t['dest']['p'] and contains_adt(b, t['dest']['l'], spec.adt):
                holder = t['dest']['l']         # a wrapper around a borrow of the resource: what is done to the wrapper is done to it
            return (holder, rs)
        d = callee_def(t)
        by_value = self.moved_whole(t['args'][argi], holder)
        if d in self.ts.f.bodies:
            summ = self.ts.summary(d, argi)
            outs = set()
            for (ev2, st2, loc2) in summ['records'].get(rs, ()):  # checkpoints inside the callee
                self.records.append((ev2, st2, t['loc'] + ' -> ' + loc2, getattr(self, 'cur_outcome', '?')))
            for rs2 in summ['out'].get(rs, {rs}):
                outs.add(rs2)
            new_holder = holder
            if by_value:
                new_holder = t['dest']['l'] if (not t['dest']['p'] and contains_adt(b, t['dest']['l'], spec.adt)) else None
            res = []
            for s2 in succs(t):
                for rs2 in outs:
                    res.append((s2, (new_holder, rs2)))
            return res
        # foreign function receiving the resource
        if by_value:
            new_holder = t['dest']['l'] if (not t['dest']['p'] and contains_adt(b, t['dest']['l'], spec.adt)) else None
            ev = spec.event(b, t, '<moved-into-foreign>', argi)
            if ev:
                if spec.checkpoint(ev):
                    self.records.append((ev, rs, t['loc'], getattr(self, 'cur_outcome', '?')))
                rs = spec.delta(rs, ev)
            if new_holder is None:
                # consumed by a foreign function whose result does not hold it any more (mem::drop, a closing helper):
                # for the resource this is the end of its life, exactly like going out of scope
                self.drops.append((rs, t['loc'], getattr(self, 'cur_outcome', '?')))
            return (new_holder, rs)
        ev = spec.event(b, t, '<unknown-foreign>:' + q, argi)
        if ev:
            if spec.checkpoint(ev):
                self.records.append((ev, rs, t['loc'], getattr(self, 'cur_outcome', '?')))
            rs = spec.delta(rs, ev)
        return (holder, rs)

    def on_exit(self, b, bi, state, outcome):
        self.exits[outcome].add(state)


class TypeState:
    def __init__(self, facts, spec):
        self.f = facts
        self.spec = spec
        self.memo = {}
        self.in_progress = set()

    def summary(self, callee_id, argi):
        """effect of a crate-local callee on its argument argi, per input state, Ok/unknown outcomes only"""
        key = (callee_id, argi)
        if key in self.memo:
            return self.memo[key]
        if key in self.in_progress:      # recursion: assume identity
            return {'out': {}, 'records': {}}
        self.in_progress.add(key)
        g = self.f.bodies[callee_id]
        cb, pm = coroutine_of(self.f, g)
        out = {}
        records = {}
        for s in self.spec.states:
            if cb and (argi + 1) in pm:
                body = self.f.bodies[cb]
                root = ('upvar', pm[argi + 1])
            elif g.raw['kind'] == 'Closure':
                body, root = g, argi + 1     # closure called directly: args are _2.. ; not used
            else:
                body, root = g, argi + 1
            r = _TS(self, body, root, s)
            Explorer(body, r).run()
            fin = set()
            for oc, sts in r.exits.items():
                if oc in ('Err',):
                    continue
                for (_h, rs) in sts:
                    fin.add(rs)
            for (rs, loc, bi) in r.drops:
                pass
            out[s] = fin or {s}
            records[s] = [(ev, st, loc) for (ev, st, loc, _bi) in r.records]
        self.in_progress.discard(key)
        self.memo[key] = {'out': out, 'records': records}
        return self.memo[key]

    def analyse_owner(self, b, root_local):
        r = _TS(self, b, root_local, self.spec.init_state)
        ex = Explorer(b, r)
        ex.run()
        # attach outcome to drops: recompute by looking at IN sets
        return r, ex

    def roots(self, b):
        """locals of the resource type that are born in this body (assigned from a call or a `?`/await payload)"""
        adt = self.spec.adt
        cands = [l for l in range(b.arg_count + 1, len(b.locals)) if b.lty(l).get('adt') == adt]
        moved_into = set()
        for bi in b.live:
            for st in b.blocks[bi]['stmts']:
                if st['k'] == 'assign' and not st['pl']['p'] and st['rv']['k'] == 'use' and st['rv']['op']['k'] == 'move' \
                        and not st['rv']['op']['pl']['p'] and st['rv']['op']['pl']['l'] in cands and st['pl']['l'] in cands:
                    moved_into.add(st['pl']['l'])
            t = b.blocks[bi]['term']
            # result of a wrapper-unwrapping call (into_inner) whose argument held the resource: a continuation, not a birth
            if t['k'] == 'call' and not t['dest']['p'] and t['dest']['l'] in cands:
                for a in t['args']:
                    if a['k'] == 'move' and not a['pl']['p'] and contains_adt(b, a['pl']['l'], adt):
                        moved_into.add(t['dest']['l'])
        return [l for l in cands if l not in moved_into]
